#![feature(rustc_private)]
// axl-facts: rustc_private driver. For the workspace crate named by AXL_PKG it walks the
// monomorphic instance graph from every `__<name>::invoke_raw` contract entry point and dumps
// MIR facts (blocks, statements, terminators with resolved callees, promoteds, ADT layouts) as
// JSON into $AXL_OUT/<crate>.json (one write per process). No code is executed.
extern crate rustc_abi;
extern crate rustc_driver;
extern crate rustc_hir;
extern crate rustc_interface;
extern crate rustc_middle;
extern crate rustc_span;

use rustc_driver::Compilation;
use rustc_hir::def::DefKind;
use rustc_middle::mir::{
    self, AggregateKind, Body, Operand, Place, ProjectionElem, Rvalue, StatementKind,
    TerminatorKind,
};
use rustc_middle::ty::{self, Instance, Ty, TyCtxt, TypingEnv};
use rustc_span::def_id::{DefId, LOCAL_CRATE};
use std::collections::{BTreeMap, BTreeSet, VecDeque};
use std::fmt::Write as _;

fn esc(s: &str) -> String {
    let mut o = String::with_capacity(s.len() + 2);
    o.push('"');
    for c in s.chars() {
        match c {
            '"' => o.push_str("\\\""),
            '\\' => o.push_str("\\\\"),
            '\n' => o.push_str("\\n"),
            '\r' => o.push_str("\\r"),
            '\t' => o.push_str("\\t"),
            c if (c as u32) < 0x20 => {
                let _ = write!(o, "\\u{:04x}", c as u32);
            }
            c => o.push(c),
        }
    }
    o.push('"');
    o
}

fn ws_crates() -> Vec<String> {
    // crate names (underscored) of the workspace members, passed by the extraction script
    std::env::var("AXL_WS")
        .unwrap_or_default()
        .split(',')
        .filter(|s| !s.is_empty())
        .map(|s| s.to_string())
        .collect()
}

/// Library (core/alloc) bodies that are walked like workspace code: the Option/Result
/// combinators and the `?` plumbing. Everything else outside the workspace is a leaf.
const WALK_LIB_PREFIXES: &[&str] = &[
    "core::option::Option::<",
    "std::option::Option::<",
    "core::result::Result::<",
    "std::result::Result::<",
    "<core::option::Option<",
    "<std::option::Option<",
    "<core::result::Result<",
    "<std::result::Result<",
    // bool::then / bool::then_some (`cond.then_some(v).ok_or(err)?` is a common spelling of a guard)
    "core::bool::<impl bool>::",
    "std::bool::<impl bool>::",
];

const WALK_LIB_DENY: &[&str] = &[
    // comparisons stay atomic facts; formatting / panicking plumbing is never walked
    "as core::cmp::PartialEq",
    "as std::cmp::PartialEq",
    "as core::cmp::PartialOrd",
    "as std::cmp::PartialOrd",
    "as core::cmp::Ord",
    "as std::cmp::Ord",
    "as core::fmt::Debug",
    "as std::fmt::Debug",
    "as core::clone::Clone",
    "as std::clone::Clone",
    "as core::hash::Hash",
    "as std::hash::Hash",
];

struct Cx<'tcx> {
    tcx: TyCtxt<'tcx>,
    env: TypingEnv<'tcx>,
    ws: Vec<String>,
    adts: std::cell::RefCell<BTreeMap<String, String>>,
    /// function items used as VALUES (passed as `fn` pointers / generic callables): their bodies are dumped too, so that an
    /// indirect call can be resolved to its target by the analysis
    pending: std::cell::RefCell<Vec<Instance<'tcx>>>,
    ws_iters: std::cell::RefCell<Option<std::collections::HashSet<DefId>>>,
}

impl<'tcx> Cx<'tcx> {
    fn is_ws(&self, name: &str) -> bool {
        self.ws.iter().any(|w| w == name)
    }

    fn inst_key(&self, i: Instance<'tcx>) -> String {
        let p = self.tcx.def_path_str_with_args(i.def_id(), i.args);
        let k = self.tcx.crate_name(i.def_id().krate);
        match i.def {
            ty::InstanceKind::Item(_) => format!("{}::{}", k, p),
            other => {
                let tag = format!("{:?}", other);
                let tag: String = tag.chars().take_while(|c| *c != '(').collect();
                format!("{}::{}#{}", k, p, tag)
            }
        }
    }

    fn span(&self, sp: rustc_span::Span) -> String {
        let sm = self.tcx.sess.source_map();
        let sp = sp.source_callsite();
        let lo = sm.lookup_char_pos(sp.lo());
        format!("{}:{}", lo.file.name.prefer_local_unconditionally(), lo.line)
    }

    fn mono<T: ty::TypeFoldable<TyCtxt<'tcx>>>(&self, i: Instance<'tcx>, v: T) -> T {
        i.instantiate_mir_and_normalize_erasing_regions(self.tcx, self.env, ty::EarlyBinder::bind(v))
    }

    /// Record the layout (variants, fields, field types) of workspace-defined ADTs.
    fn note_ty(&self, t: Ty<'tcx>, depth: usize) {
        if depth > 6 {
            return;
        }
        match t.kind() {
            ty::Adt(adt, args) => {
                for a in args.iter() {
                    if let Some(at) = a.as_type() {
                        self.note_ty(at, depth + 1);
                    }
                }
                let did = adt.did();
                let kname = self.tcx.crate_name(did.krate).to_string();
                if !self.is_ws(&kname) {
                    return;
                }
                let name = t.to_string();
                if self.adts.borrow().contains_key(&name) {
                    return;
                }
                self.adts.borrow_mut().insert(name.clone(), String::new());
                let mut s = String::new();
                let _ = write!(
                    s,
                    "{{\"name\":{},\"def\":{},\"crate\":{},\"kind\":{},\"variants\":[",
                    esc(&name),
                    esc(&self.tcx.def_path_str(did)),
                    esc(&kname),
                    esc(if adt.is_enum() { "enum" } else if adt.is_union() { "union" } else { "struct" })
                );
                let mut fv = true;
                for (vidx, v) in adt.variants().iter_enumerated() {
                    if !fv {
                        s.push(',');
                    }
                    fv = false;
                    let discr = if adt.is_enum() {
                        format!("{}", adt.discriminant_for_variant(self.tcx, vidx).val)
                    } else {
                        "0".to_string()
                    };
                    let _ = write!(s, "{{\"name\":{},\"idx\":{},\"discr\":{},\"fields\":[", esc(&v.name.to_string()), vidx.as_usize(), esc(&discr));
                    let mut ff = true;
                    for f in v.fields.iter() {
                        if !ff {
                            s.push(',');
                        }
                        ff = false;
                        let fty = f.ty(self.tcx, args);
                        let fty = self.tcx.try_normalize_erasing_regions(self.env, ty::Unnormalized::new_wip(fty)).unwrap_or(fty);
                        self.note_ty(fty, depth + 1);
                        let _ = write!(s, "{{\"name\":{},\"ty\":{}}}", esc(&f.name.to_string()), esc(&fty.to_string()));
                    }
                    s.push_str("]}");
                }
                s.push_str("]}");
                self.adts.borrow_mut().insert(name, s);
            }
            ty::Ref(_, inner, _) => self.note_ty(*inner, depth + 1),
            ty::Tuple(ts) => {
                for x in ts.iter() {
                    self.note_ty(x, depth + 1);
                }
            }
            ty::Array(inner, _) | ty::Slice(inner) => self.note_ty(*inner, depth + 1),
            _ => {}
        }
    }

    fn place(&self, i: Instance<'tcx>, body: &Body<'tcx>, p: &Place<'tcx>) -> String {
        let mut s = format!("{{\"l\":{}", p.local.as_usize());
        if !p.projection.is_empty() {
            s.push_str(",\"p\":[");
            let mut first = true;
            let mut pty = mir::PlaceTy::from_ty(body.local_decls[p.local].ty);
            for e in p.projection.iter() {
                if !first {
                    s.push(',');
                }
                first = false;
                match e {
                    ProjectionElem::Deref => s.push_str("\"*\""),
                    ProjectionElem::Field(f, _) => {
                        let mut name = String::new();
                        let t = self.mono(i, pty.ty);
                        if let ty::Adt(adt, _) = t.kind() {
                            let vidx = pty.variant_index.unwrap_or(rustc_abi::FIRST_VARIANT);
                            if vidx.as_usize() < adt.variants().len() {
                                let v = adt.variant(vidx);
                                if f.as_usize() < v.fields.len() {
                                    name = v.fields[f].name.to_string();
                                }
                            }
                        }
                        let _ = write!(s, "{{\"f\":{},\"n\":{}}}", f.as_usize(), esc(&name));
                    }
                    ProjectionElem::Downcast(name, v) => {
                        let n = name.map(|x| x.to_string()).unwrap_or_default();
                        let _ = write!(s, "{{\"v\":{},\"n\":{}}}", v.as_usize(), esc(&n));
                    }
                    other => {
                        let _ = write!(s, "{{\"o\":{}}}", esc(&format!("{:?}", other)));
                    }
                }
                pty = pty.projection_ty(self.tcx, e);
            }
            s.push(']');
        }
        s.push('}');
        s
    }

    /// do the generic arguments of this (unwalked) instance mention a workspace ADT that implements `Iterator`?
    fn mentions_ws_iterator(&self, ci: Instance<'tcx>) -> bool {
        if self.ws_iters.borrow().is_none() {
            let mut set = std::collections::HashSet::new();
            if let Some(tr) = self.tcx.get_diagnostic_item(rustc_span::sym::Iterator) {
                for imp in self.tcx.all_impls(tr) {
                    let st = self.tcx.type_of(imp).instantiate_identity().skip_norm_wip();
                    if let ty::Adt(a, _) = st.kind() {
                        if self.ws.contains(&self.tcx.crate_name(a.did().krate).to_string()) {
                            set.insert(a.did());
                        }
                    }
                }
            }
            *self.ws_iters.borrow_mut() = Some(set);
        }
        let guard = self.ws_iters.borrow();
        let set = guard.as_ref().unwrap();
        if set.is_empty() {
            return false;
        }
        for ga in ci.args.iter() {
            if let Some(t) = ga.as_type() {
                for inner in t.walk() {
                    if let Some(it) = inner.as_type() {
                        if let ty::Adt(a, _) = it.kind() {
                            if set.contains(&a.did()) {
                                return true;
                            }
                        }
                    }
                }
            }
        }
        false
    }

    /// does a value of this type contain a workspace ADT or a function pointer / item (through references, arrays, slices, tuples)?
    fn structured_const_ty(&self, ty: Ty<'tcx>, depth: usize) -> bool {
        if depth > 6 {
            return false;
        }
        match ty.kind() {
            ty::Ref(_, t, _) | ty::Array(t, _) | ty::Slice(t) => self.structured_const_ty(*t, depth + 1),
            ty::Tuple(ts) => ts.iter().any(|t| self.structured_const_ty(t, depth + 1)),
            ty::FnPtr(..) | ty::FnDef(..) => true,
            ty::Adt(def, _) => self.ws.contains(&self.tcx.crate_name(def.did().krate).to_string()),
            _ => false,
        }
    }

    fn operand(&self, i: Instance<'tcx>, body: &Body<'tcx>, o: &Operand<'tcx>) -> String {
        match o {
            Operand::Copy(p) => format!("{{\"k\":\"copy\",\"pl\":{}}}", self.place(i, body, p)),
            Operand::Move(p) => format!("{{\"k\":\"move\",\"pl\":{}}}", self.place(i, body, p)),
            Operand::Constant(c) => {
                let cst = self.mono(i, c.const_);
                let ty = cst.ty();
                let mut extra = String::new();
                if let mir::Const::Unevaluated(uv, _) = cst {
                    if let Some(p) = uv.promoted {
                        let _ = write!(extra, ",\"promoted\":{}", p.as_usize());
                    } else {
                        let _ = write!(extra, ",\"item\":{}", esc(&self.tcx.def_path_str(uv.def)));
                        // a constant table / struct / array over workspace types or function pointers: its initialiser body is
                        // dumped like a function instance so that the analysis sees the aggregate, not a printed value
                        if self.structured_const_ty(ty, 0) {
                            if let Ok(Some(ci)) = Instance::try_resolve(self.tcx, self.env, uv.def, uv.args) {
                                if matches!(ci.def, ty::InstanceKind::Item(_)) && (ci.def_id().is_local() || self.tcx.is_mir_available(ci.def_id())) {
                                    let _ = write!(extra, ",\"cbody\":{}", esc(&self.inst_key(ci)));
                                    self.pending.borrow_mut().push(ci);
                                }
                            }
                        }
                    }
                }
                if let ty::FnDef(d, a) = ty.kind() {
                    let _ = write!(extra, ",\"fn\":{}", esc(&self.tcx.def_path_str_with_args(*d, a)));
                    if let Ok(Some(fi)) = Instance::try_resolve(self.tcx, self.env, *d, a) {
                        let fk = self.inst_key(fi);
                        if self.should_walk(fi, &fk) {
                            let _ = write!(extra, ",\"fnkey\":{}", esc(&fk));
                            self.pending.borrow_mut().push(fi);
                        }
                    }
                }
                let mut val = format!("{}", cst);
                if let Ok(v) = cst.eval(self.tcx, self.env, rustc_span::DUMMY_SP) {
                    let evald = mir::Const::Val(v, ty);
                    val = format!("{}", evald);
                }
                format!("{{\"k\":\"const\",\"ty\":{},\"v\":{}{}}}", esc(&ty.to_string()), esc(&val), extra)
            }
            #[allow(unreachable_patterns)]
            other => format!("{{\"k\":\"other\",\"d\":{}}}", esc(&format!("{:?}", other))),
        }
    }

    fn rvalue(&self, i: Instance<'tcx>, body: &Body<'tcx>, r: &Rvalue<'tcx>) -> String {
        match r {
            Rvalue::Use(o, _) => format!("{{\"r\":\"use\",\"o\":{}}}", self.operand(i, body, o)),
            Rvalue::Ref(_, bk, p) => format!(
                "{{\"r\":\"ref\",\"mut\":{},\"pl\":{}}}",
                matches!(bk, mir::BorrowKind::Mut { .. }),
                self.place(i, body, p)
            ),
            Rvalue::RawPtr(_, p) => format!("{{\"r\":\"rawptr\",\"pl\":{}}}", self.place(i, body, p)),
            Rvalue::CopyForDeref(p) => format!("{{\"r\":\"use\",\"o\":{{\"k\":\"copy\",\"pl\":{}}}}}", self.place(i, body, p)),
            Rvalue::BinaryOp(op, ab) => {
                let (a, b) = &**ab;
                format!(
                    "{{\"r\":\"bin\",\"op\":{},\"a\":{},\"b\":{}}}",
                    esc(&format!("{:?}", op)),
                    self.operand(i, body, a),
                    self.operand(i, body, b)
                )
            }
            Rvalue::UnaryOp(op, a) => format!(
                "{{\"r\":\"un\",\"op\":{},\"a\":{}}}",
                esc(&format!("{:?}", op)),
                self.operand(i, body, a)
            ),
            Rvalue::Cast(k, a, t) => format!(
                "{{\"r\":\"cast\",\"kind\":{},\"a\":{},\"ty\":{}}}",
                esc(&format!("{:?}", k)),
                self.operand(i, body, a),
                esc(&self.mono(i, *t).to_string())
            ),
            Rvalue::Repeat(a, n) => format!(
                "{{\"r\":\"repeat\",\"a\":{},\"n\":{}}}",
                self.operand(i, body, a),
                esc(&format!("{}", self.mono(i, *n)))
            ),
            Rvalue::Discriminant(p) => format!(
                "{{\"r\":\"discr\",\"pl\":{},\"ty\":{}}}",
                self.place(i, body, p),
                esc(&self.mono(i, p.ty(body, self.tcx).ty).to_string())
            ),
            Rvalue::Aggregate(k, ops) => {
                let mut s = String::from("{\"r\":\"agg\",");
                match &**k {
                    AggregateKind::Tuple => s.push_str("\"kind\":\"tuple\""),
                    AggregateKind::Array(_) => s.push_str("\"kind\":\"array\""),
                    AggregateKind::Adt(d, v, _, _, _) => {
                        let adt = self.tcx.adt_def(*d);
                        let var = adt.variant(*v);
                        let fields: Vec<String> = var.fields.iter().map(|f| esc(&f.name.to_string())).collect();
                        let _ = write!(
                            s,
                            "\"kind\":\"adt\",\"adt\":{},\"variant\":{},\"vidx\":{},\"fields\":[{}],\"is_enum\":{}",
                            esc(&self.tcx.def_path_str(*d)),
                            esc(&var.name.to_string()),
                            v.as_usize(),
                            fields.join(","),
                            adt.is_enum()
                        );
                    }
                    AggregateKind::Closure(d, _) => {
                        let _ = write!(s, "\"kind\":\"closure\",\"def\":{}", esc(&self.tcx.def_path_str(*d)));
                    }
                    other => {
                        let _ = write!(s, "\"kind\":\"other\",\"d\":{}", esc(&format!("{:?}", other)));
                    }
                }
                s.push_str(",\"ops\":[");
                let v: Vec<String> = ops.iter().map(|o| self.operand(i, body, o)).collect();
                s.push_str(&v.join(","));
                s.push_str("]}");
                s
            }
            other => format!("{{\"r\":\"other\",\"d\":{}}}", esc(&format!("{:?}", other).chars().take(120).collect::<String>())),
        }
    }

    fn should_walk(&self, ci: Instance<'tcx>, key: &str) -> bool {
        // `f(x)` where f is a function ITEM passed as FnOnce/FnMut/Fn (`.map(Self::helper)`, `map_or_else(Vec::new, ..)`):
        // the compiler-generated shim body is one direct call of that item; walk it so the item is an ordinary callee
        // (and its effects are seen) instead of disappearing behind an opaque library leaf.
        if let ty::InstanceKind::FnPtrShim(_, fty) = ci.def {
            if let ty::FnDef(..) = fty.kind() {
                return true;
            }
        }
        if let ty::InstanceKind::ClosureOnceShim { .. } = ci.def {
            return true;
        }
        // `x.into()` is `U::from(x)`: walk the one-line library wrapper so that a workspace `impl From<T> for U` (e.g. a bool turned
        // into a two-variant enum that is matched later) is ordinary walked code and not an opaque conversion
        if key.contains(" as core::convert::Into<") && key.ends_with(">::into") {
            // only conversions INTO a workspace type (library conversions stay atomic, transparent leaves)
            let target = key.rsplit(" as core::convert::Into<").next().unwrap_or("");
            let lib = ["soroban_sdk::", "core::", "alloc::", "std::", "alloy_", "ruint::", "stellar_", "u8", "u16", "u32", "u64", "u128", "usize",
                       "i8", "i16", "i32", "i64", "i128", "isize", "bool", "(", "[", "&"];
            let ws_from = !lib.iter().any(|p| target.starts_with(p));
            if ws_from {
                if let ty::InstanceKind::Item(d) = ci.def {
                    if self.tcx.is_mir_available(d) {
                        return true;
                    }
                }
            }
        }
        let has_mir = match ci.def {
            ty::InstanceKind::Item(d) => self.tcx.is_mir_available(d),
            ty::InstanceKind::ClosureOnceShim { .. } => true,
            ty::InstanceKind::FnPtrShim(..) => false,
            _ => false,
        };
        if !has_mir {
            return false;
        }
        let cname = self.tcx.crate_name(ci.def_id().krate).to_string();
        // key is "<crate>::<path>"
        let path = &key[cname.len() + 2..];
        if WALK_LIB_DENY.iter().any(|d| path.contains(d) && path.starts_with('<')) {
            // trait-method impls of comparison/clone/debug traits are atomic leaves, wherever defined
            let head: String = path.chars().take_while(|c| *c != '>').collect();
            if WALK_LIB_DENY.iter().any(|d| head.contains(d) || path.split(">::").next().map(|h| h.contains(d)).unwrap_or(false)) {
                return false;
            }
        }
        if self.is_ws(&cname) {
            return true;
        }
        if cname == "core" || cname == "std" || cname == "alloc" {
            return WALK_LIB_PREFIXES.iter().any(|p| path.starts_with(p));
        }
        false
    }

    fn body_json(&self, i: Instance<'tcx>, body: &Body<'tcx>, queue: &mut Vec<Instance<'tcx>>) -> String {
        let mut s = String::new();
        let _ = write!(s, "\"argc\":{},\"locals\":[", body.arg_count);
        let mut first = true;
        for (_l, d) in body.local_decls.iter_enumerated() {
            if !first {
                s.push(',');
            }
            first = false;
            let t = self.mono(i, d.ty);
            self.note_ty(t, 0);
            s.push_str(&esc(&t.to_string()));
        }
        s.push_str("],\"names\":{");
        first = true;
        let mut seen_names = BTreeSet::new();
        for vdi in body.var_debug_info.iter() {
            if let mir::VarDebugInfoContents::Place(p) = &vdi.value {
                let n = vdi.name.to_string();
                if !seen_names.insert(n.clone()) {
                    continue;
                }
                if !first {
                    s.push(',');
                }
                first = false;
                let _ = write!(s, "{}:{}", esc(&n), self.place(i, body, p));
            }
        }
        s.push_str("},\"blocks\":[");
        let mut firstb = true;
        for (_bb, data) in body.basic_blocks.iter_enumerated() {
            if !firstb {
                s.push(',');
            }
            firstb = false;
            let _ = write!(s, "{{\"cleanup\":{},\"st\":[", data.is_cleanup);
            let mut fs = true;
            for st in data.statements.iter() {
                let js = match &st.kind {
                    StatementKind::Assign(b) => {
                        let (p, r) = &**b;
                        Some(format!(
                            "{{\"s\":\"assign\",\"pl\":{},\"rv\":{},\"at\":{}}}",
                            self.place(i, body, p),
                            self.rvalue(i, body, r),
                            esc(&self.span(st.source_info.span))
                        ))
                    }
                    StatementKind::SetDiscriminant { place, variant_index } => Some(format!(
                        "{{\"s\":\"setdiscr\",\"pl\":{},\"v\":{}}}",
                        self.place(i, body, place),
                        variant_index.as_usize()
                    )),
                    StatementKind::StorageDead(l) => Some(format!("{{\"s\":\"dead\",\"l\":{}}}", l.as_usize())),
                    _ => None,
                };
                if let Some(js) = js {
                    if !fs {
                        s.push(',');
                    }
                    fs = false;
                    s.push_str(&js);
                }
            }
            s.push_str("],\"term\":");
            let t = data.terminator();
            let at = esc(&self.span(t.source_info.span));
            match &t.kind {
                TerminatorKind::Goto { target } => {
                    let _ = write!(s, "{{\"t\":\"goto\",\"to\":{}}}", target.as_usize());
                }
                TerminatorKind::SwitchInt { discr, targets } => {
                    let _ = write!(
                        s,
                        "{{\"t\":\"switch\",\"d\":{},\"dty\":{},\"arms\":[",
                        self.operand(i, body, discr),
                        esc(&self.mono(i, discr.ty(body, self.tcx)).to_string())
                    );
                    let mut f = true;
                    for (v, tb) in targets.iter() {
                        if !f {
                            s.push(',');
                        }
                        f = false;
                        let _ = write!(s, "[{},{}]", v, tb.as_usize());
                    }
                    let _ = write!(s, "],\"otherwise\":{},\"at\":{}}}", targets.otherwise().as_usize(), at);
                }
                TerminatorKind::Return => s.push_str("{\"t\":\"return\"}"),
                TerminatorKind::Unreachable => s.push_str("{\"t\":\"unreachable\"}"),
                TerminatorKind::UnwindResume => s.push_str("{\"t\":\"resume\"}"),
                TerminatorKind::UnwindTerminate(_) => s.push_str("{\"t\":\"abort\"}"),
                TerminatorKind::Drop { place, target, .. } => {
                    let dty = self.mono(i, place.ty(body, self.tcx).ty);
                    let mut ws_drop = false;
                    for inner in dty.walk() {
                        if let Some(it) = inner.as_type() {
                            if let ty::Adt(a, _) = it.kind() {
                                if self.is_ws(&self.tcx.crate_name(a.did().krate).to_string()) && self.tcx.adt_destructor(a.did()).is_some() {
                                    ws_drop = true;
                                }
                            }
                        }
                    }
                    let _ = write!(s, "{{\"t\":\"drop\",\"pl\":{},\"to\":{},\"ws_drop\":{},\"at\":{}}}", self.place(i, body, place), target.as_usize(), ws_drop, at);
                }
                TerminatorKind::Assert { cond, expected, target, msg, .. } => {
                    let _ = write!(
                        s,
                        "{{\"t\":\"assert\",\"c\":{},\"exp\":{},\"to\":{},\"msg\":{},\"at\":{}}}",
                        self.operand(i, body, cond),
                        expected,
                        target.as_usize(),
                        esc(&format!("{:?}", msg).chars().take(60).collect::<String>()),
                        at
                    );
                }
                TerminatorKind::Call { func, args, destination, target, .. } => {
                    let fty = self.mono(i, func.ty(body, self.tcx));
                    let mut callee = String::from("null");
                    let mut cdef = String::new();
                    let mut leaf = true;
                    let mut cname = String::new();
                    let mut closure_call = false;
                    let mut self_adt = String::new();
                    let mut closure_keys: Vec<String> = vec![];
                    let mut ctor = String::from("null");
                    let mut ws_iter = false;
                    if let ty::FnDef(cd, _) = fty.kind() {
                        // a tuple-struct / tuple-variant constructor used as a function (`map_or(Ok(()), Err)`, `.map(Some)`): the call IS the aggregate
                        if let DefKind::Ctor(..) = self.tcx.def_kind(*cd) {
                            let parent = self.tcx.parent(*cd);
                            let (adt_did, vdid) = if matches!(self.tcx.def_kind(parent), DefKind::Variant) { (self.tcx.parent(parent), parent) } else { (parent, parent) };
                            if matches!(self.tcx.def_kind(adt_did), DefKind::Struct | DefKind::Enum) {
                                let adt = self.tcx.adt_def(adt_did);
                                if let Some((vi, var)) = adt.variants().iter_enumerated().find(|(_, v)| v.def_id == vdid || adt.is_struct()) {
                                    let fields: Vec<String> = var.fields.iter().map(|f| esc(&f.name.to_string())).collect();
                                    ctor = format!(
                                        "{{\"adt\":{},\"variant\":{},\"vidx\":{},\"fields\":[{}],\"is_enum\":{}}}",
                                        esc(&self.tcx.def_path_str(adt_did)),
                                        esc(&var.name.to_string()),
                                        vi.as_usize(),
                                        fields.join(","),
                                        adt.is_enum()
                                    );
                                }
                            }
                        }
                    }
                    if let ty::FnDef(cd, cargs) = fty.kind() {
                        match Instance::try_resolve(self.tcx, self.env, *cd, cargs) {
                            Ok(Some(ci)) => {
                                let key = self.inst_key(ci);
                                callee = esc(&key);
                                cdef = self.tcx.def_path_str(ci.def_id());
                                cname = self.tcx.crate_name(ci.def_id().krate).to_string();
                                closure_call = self.tcx.is_closure_like(ci.def_id());
                                // self type of inherent/trait impl methods (for client-stub detection)
                                if matches!(self.tcx.def_kind(ci.def_id()), DefKind::AssocFn) {
                                    if let Some(impl_did) = self.tcx.impl_of_assoc(ci.def_id()) {
                                        let st = self.tcx.type_of(impl_did).instantiate_identity().skip_norm_wip();
                                        if let ty::Adt(a, _) = st.kind() {
                                            self_adt = self.tcx.def_path_str(a.did());
                                        }
                                    }
                                }
                                if self.should_walk(ci, &key) {
                                    leaf = false;
                                    queue.push(ci);
                                } else if self.is_ws(&self.tcx.crate_name(ci.def_id().krate).to_string())
                                    && matches!(ci.def, ty::InstanceKind::Item(_))
                                    && self.tcx.impl_of_assoc(ci.def_id()).map(|im| !self.tcx.is_automatically_derived(im)).unwrap_or(false)
                                {
                                    // a HAND-WRITTEN workspace impl of a comparison / clone / debug trait is kept as an atomic leaf like the
                                    // derived ones, but nothing is known about its body: opaque effect
                                    ws_iter = true;
                                } else if self.mentions_ws_iterator(ci) {
                                    // library code instantiated with a workspace type that implements Iterator may call that type's
                                    // `next()` (collect / sum / count / for_each over a hand-written iterator): not followed -> opaque effect
                                    ws_iter = true;
                                }
                                // closures passed as generic args to leaves: dump their bodies too
                                for ga in ci.args.iter() {
                                    if let Some(t) = ga.as_type() {
                                        if let ty::Closure(cdid, cargs2) = t.kind() {
                                            let ci2 = Instance::new_raw(*cdid, cargs2);
                                            closure_keys.push(esc(&self.inst_key(ci2)));
                                            queue.push(ci2);
                                        }
                                    }
                                }
                            }
                            _ => {
                                callee = esc(&format!("UNRESOLVED {}", fty));
                            }
                        }
                    } else {
                        callee = esc(&format!("INDIRECT {}", fty));
                    }
                    let funcop = if callee.contains("INDIRECT ") { self.operand(i, body, func) } else { "null".to_string() };
                    let a: Vec<String> = args.iter().map(|x| self.operand(i, body, &x.node)).collect();
                    let aty: Vec<String> = args.iter().map(|x| esc(&self.mono(i, x.node.ty(body, self.tcx)).to_string())).collect();
                    let _ = write!(
                        s,
                        "{{\"t\":\"call\",\"callee\":{},\"cdef\":{},\"leaf\":{},\"crate\":{},\"closure_call\":{},\"self_adt\":{},\"closures\":[{}],\"args\":[{}],\"argtys\":[{}],\"dest\":{},\"to\":{},\"at\":{},\"func\":{},\"ctor\":{},\"ws_iter\":{}}}",
                        callee,
                        esc(&cdef),
                        leaf,
                        esc(&cname),
                        closure_call,
                        esc(&self_adt),
                        closure_keys.join(","),
                        a.join(","),
                        aty.join(","),
                        self.place(i, body, destination),
                        target.map(|t| t.as_usize() as i64).unwrap_or(-1),
                        at,
                        funcop,
                        ctor,
                        ws_iter
                    );
                }
                other => {
                    let _ = write!(s, "{{\"t\":\"other\",\"d\":{}}}", esc(&format!("{:?}", other).chars().take(80).collect::<String>()));
                }
            }
            s.push('}');
        }
        s.push(']');
        s
    }
}

struct Cb;

impl rustc_driver::Callbacks for Cb {
    fn after_analysis<'tcx>(&mut self, _c: &rustc_interface::interface::Compiler, tcx: TyCtxt<'tcx>) -> Compilation {
        let krate = tcx.crate_name(LOCAL_CRATE).to_string();
        let out = match std::env::var("AXL_OUT") {
            Ok(o) => o,
            Err(_) => return Compilation::Continue,
        };
        let pkg = std::env::var("AXL_PKG").unwrap_or_default();
        if pkg != krate {
            return Compilation::Continue;
        }
        let cx = Cx { tcx, env: TypingEnv::fully_monomorphized(), ws: ws_crates(), adts: Default::default(), pending: Default::default(), ws_iters: Default::default() };
        let mut roots: Vec<(String, DefId)> = vec![];
        for ldid in tcx.hir_body_owners() {
            let did = ldid.to_def_id();
            if !matches!(tcx.def_kind(did), DefKind::Fn | DefKind::AssocFn) {
                continue;
            }
            let p = tcx.def_path_str(did);
            if p.ends_with("::invoke_raw") {
                roots.push((p, did));
            }
        }
        let mut done: BTreeMap<String, String> = BTreeMap::new();
        let mut q: VecDeque<Instance<'tcx>> = VecDeque::new();
        let mut rootkeys = vec![];
        for (_p, d) in &roots {
            let inst = Instance::mono(tcx, *d);
            rootkeys.push(cx.inst_key(inst));
            q.push_back(inst);
        }
        while let Some(i) = q.pop_front() {
            let key = cx.inst_key(i);
            if done.contains_key(&key) {
                continue;
            }
            let body = tcx.instance_mir(i.def);
            let mut newq = vec![];
            let mut js = format!(
                "{{\"key\":{},\"def\":{},\"crate\":{},\"at\":{},\"is_closure\":{},",
                esc(&key),
                esc(&tcx.def_path_str(i.def_id())),
                esc(&tcx.crate_name(i.def_id().krate).to_string()),
                esc(&cx.span(body.span)),
                tcx.is_closure_like(i.def_id())
            );
            js.push_str(&cx.body_json(i, body, &mut newq));
            js.push_str(",\"promoted\":[");
            if let ty::InstanceKind::Item(d) = i.def {
                let proms = tcx.promoted_mir(d);
                let mut f = true;
                for pb in proms.iter() {
                    if !f {
                        js.push(',');
                    }
                    f = false;
                    js.push('{');
                    js.push_str(&cx.body_json(i, pb, &mut newq));
                    js.push('}');
                }
            }
            js.push_str("]}");
            done.insert(key, js);
            for n in newq {
                q.push_back(n);
            }
            for n in cx.pending.borrow_mut().drain(..) {
                q.push_back(n);
            }
        }
        let mut all = String::from("{\"crate\":");
        all.push_str(&esc(&krate));
        all.push_str(",\"roots\":[");
        all.push_str(&rootkeys.iter().map(|k| esc(k)).collect::<Vec<_>>().join(","));
        all.push_str("],\"adts\":[\n");
        all.push_str(&cx.adts.borrow().values().filter(|v| !v.is_empty()).cloned().collect::<Vec<_>>().join(",\n"));
        all.push_str("],\"instances\":[\n");
        all.push_str(&done.values().cloned().collect::<Vec<_>>().join(",\n"));
        all.push_str("\n]}\n");
        std::fs::write(format!("{}/{}.json", out, krate), all).expect("write facts");
        eprintln!("[axl-facts] {}: {} roots, {} instances", krate, roots.len(), done.len());
        Compilation::Continue
    }
}

fn main() {
    let mut args: Vec<String> = std::env::args().collect();
    args.remove(1);
    rustc_driver::run_compiler(&args, &mut Cb);
}
