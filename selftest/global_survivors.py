import sys,importlib,time
sys.path.insert(0,'/verif/analysis')
import extract
from prog import Program
import selfval
d,info=extract.extract()
P=Program(d)
props=['C%02d'%i for i in range(1,19)]
mods={p:importlib.import_module('rules.'+p.lower()) for p in props}
base={p:selfval.violations(P,mods[p]) for p in props}
t0=time.time()
out=open('/var/tmp/global_surv6.txt','w')
REL={'axelar_gateway':['C01','C02','C03','C06','C07','C08','C09','C13','C15','C16','C04'],
     'axelar_gas_service':['C06','C07','C14','C15','C05','C18'],
     'axelar_operators':['C06','C07','C15','C17'],
     'interchain_token':['C06','C07','C11','C12','C15','C05'],
     'interchain_token_service':['C04','C05','C06','C07','C10','C11','C15','C16','C18'],
     'upgrader':['C15'],'example':['C07','C16']}
for cn,c in P.crates.items():
    rel=REL[cn]
    for m in selfval.candidates(c):
        inst=c.inst[m[1]]
        if inst['crate'] in ('core','alloc','std'): continue
        if 'Client::<' in inst['def'] or inst['def'].endswith('::invoke_raw'): continue
        saved=selfval.apply(c,m)
        killers=[]
        try:
            for p in rel:
                v=selfval.violations(P,mods[p])
                if v-base[p]: killers.append(p)
        finally:
            at=saved.get('at') or ''
            selfval.restore(c,m,saved)
        out.write('%s\t%s\t%s\t%s\t%s\n'%(cn,m[0],inst['def'].split('::',1)[-1][-70:],at.split('/')[-1],','.join(killers) or 'SURVIVED'))
        out.flush()
print('done %.0fs'%(time.time()-t0))
