#!/usr/bin/env python3
"""Independently written property-preserving FEATURE ADDITIONS (selftest/features/*.diff, each with a .md arguing why behaviour is
unchanged; the workspace test suite passes with each).  Every check must stay SILENT on every one of them.
usage: run_refactors.py [name-substring]"""
import glob, os, shutil, subprocess, sys, tempfile
HERE = os.path.dirname(os.path.abspath(__file__))
VERIF = os.path.dirname(HERE)
sel = sys.argv[1] if len(sys.argv) > 1 else ''
ids = ['C%02d' % i for i in range(1, 19)]
bad = 0
for patch in sorted(glob.glob(HERE + '/features/*.diff')):
    name = os.path.basename(patch)[:-5]
    if sel not in name:
        continue
    sc = tempfile.mkdtemp(prefix='axl-rf-', dir='/var/tmp')
    try:
        subprocess.check_call(['rsync', '-a', '--exclude', '/target', '--exclude', '/.git', '--exclude', 'test_snapshots', '/repo/', sc + '/repo/'])
        os.makedirs(sc + '/ev')
        subprocess.check_call(['patch', '-p1', '-s', '-i', patch], cwd=sc + '/repo')
        env = dict(os.environ, VERIF_REPO=sc + '/repo', VERIF_EVIDENCE_DIR=sc + '/ev')
        alarms = []
        for p in ids:
            r = subprocess.run([VERIF + '/check', p], cwd=VERIF, stdout=subprocess.PIPE, stderr=subprocess.STDOUT, text=True, env=env)
            if r.returncode:
                rules = sorted(set(l.split('rule=')[1].split()[0] for l in r.stdout.splitlines() if l.strip().startswith('rule=')))
                alarms.append('%s(rc=%d %s)' % (p, r.returncode, ','.join(rules)))
                if '-v' in sys.argv:
                    print(r.stdout)
        print('%-14s %s' % (name, 'silent' if not alarms else 'ALARM ON A PROPERTY-PRESERVING FEATURE ' + ' '.join(alarms)))
        bad += bool(alarms)
    finally:
        shutil.rmtree(sc, ignore_errors=True)
print('features with alarms: %d' % bad)
sys.exit(1 if bad else 0)
