"""Source mutants used to validate the checker (each still compiles; most pass the repo's test suite).
'equiv': True marks a behaviour-preserving edit on which the check must stay silent."""

GW = 'contracts/axelar-gateway/src/contract.rs'
AUTH = 'contracts/axelar-gateway/src/auth.rs'
ITS = 'contracts/interchain-token-service/src/contract.rs'
TOK = 'contracts/interchain-token/src/contract.rs'
GAS = 'contracts/axelar-gas-service/src/contract.rs'
OPS = 'contracts/axelar-operators/src/contract.rs'
UPG = 'contracts/upgrader/src/contract.rs'
EX = 'contracts/example/src/contract.rs'
OWN = 'packages/axelar-soroban-std/src/interfaces/ownable.rs'
OPR = 'packages/axelar-soroban-std/src/interfaces/operatable.rs'
UPI = 'packages/axelar-soroban-std/src/interfaces/upgradable.rs'
ABI = 'contracts/interchain-token-service/src/abi.rs'
TH = 'contracts/interchain-token-service/src/token_handler.rs'
EXE = 'contracts/axelar-gateway/src/executable.rs'
STD_TOKEN = 'packages/axelar-soroban-std/src/token.rs'

MUTANTS = []


def M(prop, id, file, find, replace, expect=None, equiv=False, base=None):
    """base: name of a behaviour-preserving refactoring in selftest/refactors/ applied first (the mutant then breaks the REFACTORED code:
    the checks must follow the refactoring and still see the defect)"""
    MUTANTS.append(dict(prop=prop, id=id, file=file, find=find, replace=replace, expect=expect, equiv=equiv, base=base))


# ---------------- C13 ----------------
M('C13', 'call_contract-no-auth', GW, '        caller.require_auth();\n\n        let payload_hash', '        let payload_hash', 'C13.R1')
M('C13', 'call_contract-hash-of-address', GW, 'env.crypto().keccak256(&payload).into();\n\n        event::call_contract',
  'env.crypto().keccak256(&destination_address.clone().to_xdr(&env)).into();\n\n        event::call_contract', 'C13.R2')
M('C13', 'call_contract-writes-state', GW, '        let payload_hash = env.crypto().keccak256(&payload).into();\n',
  '        let payload_hash = env.crypto().keccak256(&payload).into();\n        env.storage().instance().set(&DataKey::Epoch, &0u64);\n', 'C13.R3')

# ---------------- C06 ----------------
M('C06', 'remove_trusted_chain-no-owner', ITS,
  '    fn remove_trusted_chain(env: &Env, chain: String) -> Result<(), ContractError> {\n        Self::owner(env).require_auth();\n',
  '    fn remove_trusted_chain(env: &Env, chain: String) -> Result<(), ContractError> {\n', 'C06.R1')
M('C06', 'transfer_ownership-auth-new-owner', OWN, '    let current_owner = T::owner(env);\n    current_owner.require_auth();\n\n    set_owner(env, &new_owner);',
  '    let current_owner = T::owner(env);\n    set_owner(env, &new_owner);\n    T::owner(env).require_auth();\n', 'C06.R1')
M('C06', 'transfer_operatorship-auth-owner-param', OPR, '    current_operator.require_auth();', '    new_operator.require_auth();', 'C06.R1')
M('C06', 'upgrade-no-owner', UPI, 'pub fn upgrade<T: OwnableInterface>(env: &Env, new_wasm_hash: BytesN<32>) {\n    T::owner(env).require_auth();\n',
  'pub fn upgrade<T: OwnableInterface>(env: &Env, new_wasm_hash: BytesN<32>) {\n', 'C06.R1')
M('C06', 'add_minter-by-operator-of-gas', TOK, '    fn add_minter(env: &Env, minter: Address) {\n        Self::owner(env).require_auth();',
  '    fn add_minter(env: &Env, minter: Address) {\n        minter.require_auth();', 'C06.R1')
M('C06', 'refund-no-collector', GAS, '        Self::gas_collector(&env).require_auth();\n\n        token::Client::new(&env, &token.address).transfer(\n            &env.current_contract_address(),',
  '        token::Client::new(&env, &token.address).transfer(\n            &env.current_contract_address(),', 'C06.R1')
M('C06', 'collect_fees-owner-instead-of-collector', GAS, '        let gas_collector = Self::gas_collector(&env);\n        gas_collector.require_auth();',
  '        let gas_collector = Self::gas_collector(&env);\n        Self::owner(&env).require_auth();', 'C06.R1')
M('C06', 'bypass-no-operator', GW, '        if bypass_rotation_delay {\n            Self::operator(&env).require_auth();\n        }\n', '', 'C06.R3')
M('C06', 'bypass-owner-instead-of-operator', GW, '            Self::operator(&env).require_auth();', '            Self::owner(&env).require_auth();', 'C06.R3')
M('C06', 'operators-add-no-owner', OPS, '    pub fn add_operator(env: Env, account: Address) -> Result<(), ContractError> {\n        Self::owner(&env).require_auth();',
  '    pub fn add_operator(env: Env, account: Address) -> Result<(), ContractError> {\n        account.require_auth();', 'C06.R1')
M('C06', 'owner-mint-no-auth-equiv-refactor', TOK, '        if let Err(err) = Self::mint_from(&env, Self::owner(&env), to, amount) {\n            panic_with_error!(env, err);\n        }',
  '        let owner = Self::owner(&env);\n        Self::mint_from(&env, owner, to, amount).unwrap_or_else(|err| panic_with_error!(env, err));', equiv=True)
M('C06', 'set_owner-writes-current-owner', OWN, '    set_owner(env, &new_owner);\n\n    OwnershipTransferredEvent', '    set_owner(env, &current_owner);\n\n    OwnershipTransferredEvent', 'C06.R2')

# ---------------- C07 ----------------
M('C07', 'operators-execute-no-auth', OPS, '        operator.require_auth();\n\n        let key = DataKey::Operators(operator);', '        let key = DataKey::Operators(operator);', 'C07.T')
M('C07', 'token-transfer-auth-recipient', TOK, '    fn transfer(env: Env, from: Address, to: Address, amount: i128) {\n        from.require_auth();',
  '    fn transfer(env: Env, from: Address, to: Address, amount: i128) {\n        to.require_auth();', 'C07')
M('C07', 'token-burn_from-auth-from-not-spender', TOK, '    fn burn_from(env: Env, spender: Address, from: Address, amount: i128) {\n        spender.require_auth();',
  '    fn burn_from(env: Env, spender: Address, from: Address, amount: i128) {\n        from.require_auth();', 'C07.T')
M('C07', 'token-transfer_from-skip-allowance', TOK, '        Self::spend_allowance(&env, from.clone(), spender, amount);\n        Self::spend_balance(&env, from.clone(), amount);\n        Self::receive_balance(&env, to.clone(), amount);',
  '        let _ = spender;\n        Self::spend_balance(&env, from.clone(), amount);\n        Self::receive_balance(&env, to.clone(), amount);', 'C07.T')
M('C07', 'token-approve-auth-spender', TOK, '    fn approve(env: Env, from: Address, spender: Address, amount: i128, expiration_ledger: u32) {\n        from.require_auth();',
  '    fn approve(env: Env, from: Address, spender: Address, amount: i128, expiration_ledger: u32) {\n        spender.require_auth();', 'C07.T')
M('C07', 'mint_from-no-membership', TOK, '        ensure!(\n            Self::is_minter(env, minter.clone()),\n            ContractError::NotMinter\n        );\n', '', 'C07.T')
M('C07', 'mint_from-membership-of-recipient', TOK, '            Self::is_minter(env, minter.clone()),', '            Self::is_minter(env, to.clone()),', 'C07.T')
M('C07', 'gas-pay-auth-sender', GAS, '        metadata: Bytes,\n    ) -> Result<(), ContractError> {\n        spender.require_auth();', '        metadata: Bytes,\n    ) -> Result<(), ContractError> {\n        sender.require_auth();', 'C07')
M('C07', 'gateway-validate-no-auth', GW, '        caller.require_auth();\n\n        let key = MessageApprovalKey {', '        let key = MessageApprovalKey {', 'C07.T')
M('C07', 'its-transfer-auth-after-take', ITS, '        caller.require_auth();\n\n        token_handler::take_token(', '        token_handler::take_token(', 'C07.T')
M('C07', 'its-deploy-remote-no-auth', ITS, '        caller.require_auth();\n\n        let deploy_salt = Self::interchain_token_deploy_salt(env, caller.clone(), salt);\n\n        Self::deploy_remote_token',
  '        let deploy_salt = Self::interchain_token_deploy_salt(env, caller.clone(), salt);\n\n        Self::deploy_remote_token', 'C07.T')
M('C07', 'example-send-no-auth', EX, '        caller.require_auth();\n\n        gas_service.pay_gas(', '        gas_service.pay_gas(', 'C07.T')
M('C07', 'its-deploy-remote-auth-late-equiv', ITS, '        caller.require_auth();\n\n        let deploy_salt = Self::interchain_token_deploy_salt(env, caller.clone(), salt);\n\n        Self::deploy_remote_token',
  '        let deploy_salt = Self::interchain_token_deploy_salt(env, caller.clone(), salt);\n        caller.require_auth();\n\n        Self::deploy_remote_token', equiv=True)

# ---------------- C17 ----------------
M('C17', 'execute-no-membership', OPS, '        ensure!(\n            env.storage().instance().has(&key),\n            ContractError::NotAnOperator\n        );\n\n        let res: Val', '        let _ = &key;\n        let res: Val', 'C17.R1')
M('C17', 'execute-membership-of-contract', OPS, '        let key = DataKey::Operators(operator);\n\n        ensure!(\n            env.storage().instance().has(&key),\n            ContractError::NotAnOperator',
  '        let key = DataKey::Operators(contract.clone());\n\n        ensure!(\n            env.storage().instance().has(&key),\n            ContractError::NotAnOperator', 'C17.R1')
M('C17', 'execute-swallow-failure', OPS, '        let res: Val = env.invoke_contract(&contract, &func, args);',
  '        let res: Val = match env.try_invoke_contract::<Val, soroban_sdk::Error>(&contract, &func, args) { Ok(Ok(v)) => v, _ => Val::VOID.into() };', 'C17.R2')
M('C17', 'execute-drop-return', OPS, '        Ok(res)\n    }', '        let _ = res;\n        Ok(Val::VOID.into())\n    }', 'C17.R2')
M('C17', 'add-allows-duplicate', OPS, '        ensure!(\n            !env.storage().instance().has(&key),\n            ContractError::OperatorAlreadyAdded\n        );\n', '', 'C17.R3')
M('C17', 'remove-absent-ok', OPS, '        ensure!(\n            env.storage().instance().has(&key),\n            ContractError::NotAnOperator\n        );\n\n        env.storage().instance().remove(&key);', '        env.storage().instance().remove(&key);', 'C17.R3')
M('C17', 'execute-twice', OPS, '        let res: Val = env.invoke_contract(&contract, &func, args);', '        let _r: Val = env.invoke_contract(&contract, &func, args.clone());\n        let res: Val = env.invoke_contract(&contract, &func, args);', 'C17.R2')

# ---------------- C15 ----------------
M('C15', 'migrate-no-window-check', UPI, '    ensure_is_migrating(env)?;\n\n    custom_migration();', '    custom_migration();', 'C15.R2')
M('C15', 'migrate-keeps-window-open', UPI, '    custom_migration();\n    complete_migration(env);', '    custom_migration();', 'C15.R2')
M('C15', 'migrate-no-owner', UPI, ') -> Result<(), MigrationError> {\n    T::owner(env).require_auth();\n', ') -> Result<(), MigrationError> {\n', 'C15.R2')
M('C15', 'upgrade-no-window', UPI, '    env.deployer().update_current_contract_wasm(new_wasm_hash);\n    start_migration(env);', '    env.deployer().update_current_contract_wasm(new_wasm_hash);', 'C15.R1')
M('C15', 'upgrader-no-same-version-check', UPG, '        ensure!(\n            contract_client.version() != new_version,\n            ContractError::SameVersion\n        );\n', '', 'C15.R4')
M('C15', 'upgrader-no-final-version-check', UPG, '        ensure!(\n            contract_client.version() == new_version,\n            ContractError::UnexpectedNewVersion\n        );\n', '', 'C15.R4')
M('C15', 'upgrader-final-check-before-migrate', UPG, '        env.invoke_contract::<()>(&contract_address, &MIGRATE, migration_data);\n\n        ensure!(\n            contract_client.version() == new_version,\n            ContractError::UnexpectedNewVersion\n        );',
  '        ensure!(\n            contract_client.version() == new_version,\n            ContractError::UnexpectedNewVersion\n        );\n        env.invoke_contract::<()>(&contract_address, &MIGRATE, migration_data);', 'C15.R4')
M('C15', 'upgrader-try-migrate', UPG, '        env.invoke_contract::<()>(&contract_address, &MIGRATE, migration_data);', '        let _ = env.try_invoke_contract::<(), soroban_sdk::Error>(&contract_address, &MIGRATE, migration_data);', 'C15.R4')
M('C15', 'migrate-event-wrong-version', UPI, '        version: T::version(env),', '        version: String::from_str(env, "0.0.0"),', 'C15.R2')

# ---------------- C16 ----------------
M('C16', 'example-discard-validation', EX, '        Self::validate_message(&env, &source_chain, &message_id, &source_address, &payload)\n            .unwrap_or_else(|err| panic_with_error!(env, err));',
  '        let _ = Self::validate_message(&env, &source_chain, &message_id, &source_address, &payload);', 'C16.R1')
M('C16', 'its-execute-discard-validation', ITS, '        Self::validate_message(&env, &source_chain, &message_id, &source_address, &payload)\n            .unwrap_or_else(|err| panic_with_error!(env, err));',
  '        let _ok = Self::validate_message(&env, &source_chain, &message_id, &source_address, &payload).is_ok();', 'C16.R1')
M('C16', 'default-validate-uses-query', EXE, '            gateway.validate_message(\n                &env.current_contract_address(),\n                source_chain,\n                message_id,\n                source_address,\n                &env.crypto().keccak256(payload).into(),\n            ),',
  '            gateway.is_message_approved(\n                source_chain,\n                message_id,\n                source_address,\n                &env.current_contract_address(),\n                &env.crypto().keccak256(payload).into(),\n            ),', 'C16')
M("C16", "default-validate-ignores-result", EXE, "        ensure!(\n            gateway.validate_message(\n                &env.current_contract_address(),\n                source_chain,\n                message_id,\n                source_address,\n                &env.crypto().keccak256(payload).into(),\n            ),\n            ExecutableError::NotApproved\n        );", "        let _unused = gateway.validate_message(\n                &env.current_contract_address(),\n                source_chain,\n                message_id,\n                source_address,\n                &env.crypto().keccak256(payload).into(),\n            );\n        let _e = ExecutableError::NotApproved;", "C16.R1")
M('C16', 'default-validate-wrong-source-address', EXE, '                message_id,\n                source_address,\n                &env.crypto()', '                message_id,\n                source_chain,\n                &env.crypto()', 'C16.R2')
M('C16', 'its-execute-swallow-handler-error', ITS, '        Self::execute_message(&env, source_chain, message_id, source_address, payload)\n            .unwrap_or_else(|err| panic_with_error!(env, err));',
  '        let _ = Self::execute_message(&env, source_chain, message_id, source_address, payload);', 'C16.R3')
M('C16', 'example-if-let-err-equiv', EX, '        Self::validate_message(&env, &source_chain, &message_id, &source_address, &payload)\n            .unwrap_or_else(|err| panic_with_error!(env, err));',
  '        if let Err(err) = Self::validate_message(&env, &source_chain, &message_id, &source_address, &payload) {\n            panic_with_error!(env, err);\n        }', equiv=True)
M('C16', 'example-expect-equiv', EX, '        Self::validate_message(&env, &source_chain, &message_id, &source_address, &payload)\n            .unwrap_or_else(|err| panic_with_error!(env, err));',
  '        Self::validate_message(&env, &source_chain, &message_id, &source_address, &payload).expect("not approved");', equiv=True)

# ---------------- C02 ----------------
M('C02', 'reapprove-executed', GW, '            if message_approval != MessageApprovalValue::NotApproved {\n                continue;\n            }',
  '            if matches!(message_approval, MessageApprovalValue::Approved(_)) {\n                continue;\n            }', 'C02.R2')
M('C02', 'approve-no-replay-guard', GW, '            if message_approval != MessageApprovalValue::NotApproved {\n                continue;\n            }\n', '            let _ = message_approval;\n', 'C02.R2')
M('C02', 'approve-key-swapped-fields', GW, '            let key = MessageApprovalKey {\n                source_chain: message.source_chain.clone(),\n                message_id: message.message_id.clone(),\n            };',
  '            let key = MessageApprovalKey {\n                source_chain: message.message_id.clone(),\n                message_id: message.source_chain.clone(),\n            };', 'C02.R2')
M('C02', 'validate-hash-ignores-caller', GW, '            source_address,\n            contract_address: caller,\n            payload_hash,\n        };\n\n        if message_approval == Self::message_approval_hash(&env, message.clone()) {',
  '            source_address,\n            contract_address: caller,\n            payload_hash,\n        };\n\n        if matches!(message_approval, MessageApprovalValue::Approved(_)) {', 'C02.R3')
M('C02', 'validate-no-mark-executed', GW, '            env.storage().persistent().set(\n                &DataKey::MessageApproval(key),\n                &MessageApprovalValue::Executed,\n            );\n\n            event::execute_message', '            let _ = key;\n            event::execute_message', 'C02')
M('C02', 'validate-marks-notapproved', GW, '                &DataKey::MessageApproval(key),\n                &MessageApprovalValue::Executed,', '                &DataKey::MessageApproval(key),\n                &MessageApprovalValue::NotApproved,', 'C02.R1')
M('C02', 'is_executed-reports-approved', GW, '        message_approval == MessageApprovalValue::Executed\n', '        message_approval != MessageApprovalValue::NotApproved\n', 'C02.R4')
M('C02', 'is_approved-ignores-payload', GW, '                    contract_address,\n                    payload_hash,\n                },\n            )\n    }',
  '                    contract_address,\n                    payload_hash: BytesN::from_array(&env, &[0; 32]),\n                },\n            )\n    }', 'C02.R4')
M('C02', 'validate-wrong-key', GW, '        let key = MessageApprovalKey {\n            source_chain: source_chain.clone(),\n            message_id: message_id.clone(),\n        };\n        let message_approval = Self::message_approval_by_key(&env, key.clone());\n        let message = Message {',
  '        let key = MessageApprovalKey {\n            source_chain: source_chain.clone(),\n            message_id: source_address.clone(),\n        };\n        let message_approval = Self::message_approval_by_key(&env, key.clone());\n        let message = Message {', 'C02.R3')
M('C02', 'approve-if-eq-equiv', GW, '            if message_approval != MessageApprovalValue::NotApproved {\n                continue;\n            }\n\n            env.storage().persistent().set(\n                &DataKey::MessageApproval(key),\n                &Self::message_approval_hash(&env, message.clone()),\n            );\n\n            event::approve_message(&env, message);',
  '            if message_approval == MessageApprovalValue::NotApproved {\n                env.storage().persistent().set(\n                    &DataKey::MessageApproval(key),\n                    &Self::message_approval_hash(&env, message.clone()),\n                );\n\n                event::approve_message(&env, message);\n            }', equiv=True)

# ---------------- C01 ----------------
TYPES = 'contracts/axelar-gateway/src/types.rs'
M('C01', 'no-retention-check', AUTH, '    ensure!(\n        current_epoch - signers_epoch <= previous_signers_retention,\n        ContractError::OutdatedSigners\n    );\n', '    let _ = previous_signers_retention;\n', 'C01.R1')
M('C01', 'digest-without-domain', AUTH, '    let mut msg: Bytes = domain_separator.into();\n    msg.extend_from_array(&signers_hash.to_array());', '    let _ = domain_separator;\n    let mut msg: Bytes = signers_hash.into();', 'C01.R3')
M('C01', 'digest-without-signers-hash', AUTH, '    msg.extend_from_array(&signers_hash.to_array());\n', '    let _ = signers_hash;\n', 'C01.R3')
M('C01', 'digest-without-data-hash', AUTH, '    msg.extend_from_array(&data_hash.to_array());\n', '', 'C01.R3')
M('C01', 'threshold-gt', AUTH, '            if total_weight >= proof.threshold {\n                return true;', '            if total_weight > proof.threshold {\n                return true;', 'C01.R1')
M('C01', 'weight-before-verify-unsigned-counted', AUTH, '        if let ProofSignature::Signed(signature) = signature {\n            env.crypto()\n                .ed25519_verify(&public_key, msg_hash.to_bytes().as_ref(), &signature);\n\n            total_weight = total_weight.checked_add(weight).unwrap();\n',
  '        total_weight = total_weight.checked_add(weight).unwrap();\n        if let ProofSignature::Signed(signature) = signature {\n            env.crypto()\n                .ed25519_verify(&public_key, msg_hash.to_bytes().as_ref(), &signature);\n', 'C01.R3')
M('C01', 'approve-without-proof', GW, '        auth::validate_proof(&env, &data_hash, proof)?;\n\n        ensure!(!messages.is_empty()', '        let _ = auth::validate_proof(&env, &data_hash, proof);\n\n        ensure!(!messages.is_empty()', 'C01.R1')
M('C01', 'approve-hash-wrong-command', GW, '.keccak256(&(CommandType::ApproveMessages, messages.clone()).to_xdr(&env))', '.keccak256(&(CommandType::RotateSigners, messages.clone()).to_xdr(&env))', 'C01.R3')
M('C01', 'approve-hash-no-command', GW, '.keccak256(&(CommandType::ApproveMessages, messages.clone()).to_xdr(&env))', '.keccak256(&messages.clone().to_xdr(&env))', 'C01.R3')
M('C01', 'proof-threshold-not-hashed', TYPES, '            threshold: self.threshold,\n            nonce: self.nonce.clone(),\n        }\n    }\n}', '            threshold: 1,\n            nonce: self.nonce.clone(),\n        }\n    }\n}', 'C01')
M('C01', 'verify-wrong-key', AUTH, '.ed25519_verify(&public_key, msg_hash.to_bytes().as_ref(), &signature);', '.ed25519_verify(&proof.signers.get(0).unwrap().signer.signer, msg_hash.to_bytes().as_ref(), &signature);', 'C01.R3')
M('C01', 'empty-messages-allowed', GW, '        ensure!(!messages.is_empty(), ContractError::EmptyMessages);\n', '', 'C01.R1')
M('C01', 'validate_proof-threshold-from-weight-sum-saturating', AUTH, '            total_weight = total_weight.checked_add(weight).unwrap();', '            total_weight = total_weight.saturating_add(weight);', 'C01')
M('C01', 'sig-loop-while-equiv', AUTH, '            if total_weight >= proof.threshold {\n                return true;\n            }', '            if proof.threshold <= total_weight {\n                return true;\n            }', equiv=True)

# ---------------- C09 ----------------
M('C09', 'no-delay-check', AUTH, '    if enforce_rotation_delay {\n        ensure!(\n            current_timestamp - last_rotation_timestamp >= minimum_rotation_delay,\n            ContractError::InsufficientRotationDelay\n        );\n    }\n', '    let _ = (enforce_rotation_delay, minimum_rotation_delay, last_rotation_timestamp);\n', 'C09.R1')
M('C09', 'delay-strictly-greater', AUTH, 'current_timestamp - last_rotation_timestamp >= minimum_rotation_delay', 'current_timestamp - last_rotation_timestamp > minimum_rotation_delay', 'C09.R1')
M('C09', 'enforce-flag-inverted', GW, '        auth::rotate_signers(&env, &signers, !bypass_rotation_delay)?;', '        auth::rotate_signers(&env, &signers, bypass_rotation_delay)?;', 'C09.R1')
M('C09', 'enforce-always-false', GW, '        auth::rotate_signers(&env, &signers, !bypass_rotation_delay)?;', '        auth::rotate_signers(&env, &signers, false)?;', 'C09.R1')
M('C09', 'bypass-does-not-restart-clock', AUTH, '    env.storage()\n        .instance()\n        .set(&DataKey::LastRotationTimestamp, &current_timestamp);\n\n    Ok(())',
  '    if enforce_rotation_delay {\n        env.storage()\n            .instance()\n            .set(&DataKey::LastRotationTimestamp, &current_timestamp);\n    }\n\n    Ok(())', 'C09.R2')
M('C09', 'clock-compared-after-write', AUTH, '    let current_timestamp = env.ledger().timestamp();\n\n    if enforce_rotation_delay {',
  '    let current_timestamp = env.ledger().timestamp();\n    env.storage().instance().set(&DataKey::LastRotationTimestamp, &current_timestamp);\n    let last_rotation_timestamp: u64 = env.storage().instance().get(&DataKey::LastRotationTimestamp).unwrap_or(0);\n\n    if enforce_rotation_delay {', 'C09.R1')
M('C09', 'delay-wrapping-sub', AUTH, 'current_timestamp - last_rotation_timestamp >= minimum_rotation_delay', 'current_timestamp.wrapping_sub(last_rotation_timestamp) >= minimum_rotation_delay', 'C09.R1')
M('C09', 'delay-rewritten-equiv', AUTH, '        ensure!(\n            current_timestamp - last_rotation_timestamp >= minimum_rotation_delay,\n            ContractError::InsufficientRotationDelay\n        );',
  '        if current_timestamp - last_rotation_timestamp < minimum_rotation_delay {\n            return Err(ContractError::InsufficientRotationDelay);\n        }', equiv=True)

# ---------------- C08 ----------------
M('C08', 'retention-off-by-one', AUTH, 'current_epoch - signers_epoch <= previous_signers_retention', 'current_epoch - signers_epoch < previous_signers_retention', 'C08')
M('C08', 'retention-plus-one', AUTH, 'current_epoch - signers_epoch <= previous_signers_retention', 'current_epoch - signers_epoch <= previous_signers_retention + 1', 'C08')
M('C08', 'latest-check-dropped', GW, '        ensure!(\n            bypass_rotation_delay || is_latest_signers,\n            ContractError::NotLatestSigners\n        );\n', '        let _ = is_latest_signers;\n', 'C08.R3')
M('C08', 'latest-means-retained', AUTH, '    let is_latest_signers: bool = signers_epoch == current_epoch;', '    let is_latest_signers: bool = signers_epoch <= current_epoch;', 'C08.R3')
M('C08', 'epoch-plus-two', AUTH, '    let new_epoch: u64 = epoch(env) + 1;', '    let new_epoch: u64 = epoch(env) + 2;', 'C08.R4')
M('C08', 'retention-guard-reordered-equiv', AUTH, '        current_epoch - signers_epoch <= previous_signers_retention,', '        previous_signers_retention >= current_epoch - signers_epoch,', equiv=True)

# ---------------- C03 ----------------
M('C03', 'order-non-strict', AUTH, '            previous_signer < signer.signer,', '            previous_signer <= signer.signer,', 'C03.R1')
M('C03', 'no-weight-check', AUTH, '        ensure!(signer.weight != 0, ContractError::InvalidWeight);\n', '', 'C03.R1')
M('C03', 'threshold-zero-allowed', AUTH, '        threshold != 0 && total_weight >= threshold,', '        total_weight >= threshold,', 'C03.R1')
M('C03', 'threshold-above-total-allowed', AUTH, '        threshold != 0 && total_weight >= threshold,', '        threshold != 0,', 'C03.R1')
M('C03', 'weights-wrapping', AUTH, '        total_weight = total_weight\n            .checked_add(signer.weight)\n            .ok_or(ContractError::WeightOverflow)?;', '        total_weight = total_weight.wrapping_add(signer.weight);', 'C03.R1')
M('C03', 'no-duplicate-check', AUTH, '    ensure!(\n        epoch_by_signers_hash(env, new_signers_hash.clone()).is_err(),\n        ContractError::DuplicateSigners\n    );\n', '', 'C03.R2')
M('C03', 'rotation-proof-over-other-command', TYPES, '            .keccak256(&(CommandType::RotateSigners, self.clone()).to_xdr(env))', '            .keccak256(&(CommandType::ApproveMessages, self.clone()).to_xdr(env))', 'C03.R3')
M('C03', 'rotation-proof-not-over-set', GW, '        let data_hash: BytesN<32> = signers.signers_rotation_hash(&env);', '        let data_hash: BytesN<32> = proof.weighted_signers().signers_rotation_hash(&env);', 'C03.R3')
M('C03', 'maps-disagree-on-epoch', AUTH, '        &DataKey::EpochBySignersHash(new_signers_hash.clone()),\n        &new_epoch,', '        &DataKey::EpochBySignersHash(new_signers_hash.clone()),\n        &epoch(env),', None)
M('C03', 'prev-signer-not-updated', AUTH, '        previous_signer = signer.signer;\n        total_weight', '        total_weight', 'C03.R1')
M('C03', 'validate-after-install', AUTH, '    validate_signers(env, new_signers)?;\n\n    update_rotation_timestamp(env, enforce_rotation_delay)?;', '    update_rotation_timestamp(env, enforce_rotation_delay)?;', 'C03.R1')
M('C03', 'constructor-allows-empty', AUTH, '    ensure!(!initial_signers.is_empty(), ContractError::EmptySigners);\n', '', 'C03.R5')
M('C03', 'constructor-ignores-failure', AUTH, '        rotate_signers(&env, &signers, false)?;', '        let _ = rotate_signers(&env, &signers, false);', None)

# ---------------- C14 ----------------
GASEV = 'contracts/axelar-gas-service/src/event.rs'
M('C14', 'pay_gas-zero-amount-allowed', GAS, '        spender.require_auth();\n\n        ensure!(token.amount > 0, ContractError::InvalidAmount);\n\n        token::Client::new(&env, &token.address).transfer(\n            &spender,\n            &env.current_contract_address(),\n            &token.amount,\n        );\n\n        event::gas_paid(',
  '        spender.require_auth();\n\n        token::Client::new(&env, &token.address).transfer(\n            &spender,\n            &env.current_contract_address(),\n            &token.amount,\n        );\n\n        event::gas_paid(', 'C14.R2')
M('C14', 'add_gas-ge-zero', GAS, '        ensure!(token.amount > 0, ContractError::InvalidAmount);\n\n        token::Client::new(&env, &token.address).transfer(\n            &spender,\n            &env.current_contract_address(),\n            &token.amount,\n        );\n\n        event::gas_added',
  '        ensure!(token.amount >= 0, ContractError::InvalidAmount);\n\n        token::Client::new(&env, &token.address).transfer(\n            &spender,\n            &env.current_contract_address(),\n            &token.amount,\n        );\n\n        event::gas_added', 'C14.R2')
M('C14', 'collect-no-balance-check', GAS, '        ensure!(\n            contract_token_balance >= token.amount,\n            ContractError::InsufficientBalance\n        );\n', '        let _ = contract_token_balance;\n', 'C14.R2')
M('C14', 'collect-balance-of-receiver', GAS, 'let contract_token_balance = token_client.balance(&env.current_contract_address());', 'let contract_token_balance = token_client.balance(&receiver);', 'C14.R2')
M('C14', 'refund-to-collector', GAS, '            &env.current_contract_address(),\n            &receiver,\n            &token.amount,\n        );\n\n        event::refunded', '            &env.current_contract_address(),\n            &Self::gas_collector(&env),\n            &token.amount,\n        );\n\n        event::refunded', 'C14.R3')
M('C14', 'refund-event-wrong-receiver', GAS, '        event::refunded(&env, message_id, receiver, token);', '        event::refunded(&env, message_id, Self::gas_collector(&env), token);', 'C14.R3')
M('C14', 'pay_gas-no-event', GAS, '        event::gas_paid(\n            &env,\n            sender,\n            destination_chain,\n            destination_address,\n            payload,\n            spender,\n            token,\n            metadata,\n        );\n', '        let _ = (sender, destination_chain, destination_address, payload, metadata);\n', 'C14.R4')
M('C14', 'gas_paid-event-drops-token', GASEV, '        env.crypto().keccak256(&payload),\n        spender,\n        token,\n    );', '        env.crypto().keccak256(&payload),\n        spender,\n        token.address,\n    );', 'C14.R3')
M('C14', 'pay_gas-takes-double', GAS, '            &spender,\n            &env.current_contract_address(),\n            &token.amount,\n        );\n\n        event::gas_paid(', '            &spender,\n            &env.current_contract_address(),\n            &(token.amount * 2),\n        );\n\n        event::gas_paid(', 'C14.R3')
M('C14', 'refund-by-owner', GAS, '        Self::gas_collector(&env).require_auth();\n\n        token::Client::new(&env, &token.address).transfer(\n            &env.current_contract_address(),', '        Self::owner(&env).require_auth();\n\n        token::Client::new(&env, &token.address).transfer(\n            &env.current_contract_address(),', 'C14.R1')

# ---------------- C12 ----------------
M('C12', 'expiry-one-ledger-early', TOK, '                    if allowance.expiration_ledger < env.ledger().sequence() {', '                    if allowance.expiration_ledger <= env.ledger().sequence() {', 'C12.R5')
M('C12', 'expiry-ignored-on-read', TOK, '                    if allowance.expiration_ledger < env.ledger().sequence() {', '                    if false && allowance.expiration_ledger < env.ledger().sequence() {', 'C12.R5')
M('C12', 'approve-accepts-expired', TOK, '            !(amount > 0 && expiration_ledger < env.ledger().sequence()),', '            !(amount > 0 && expiration_ledger + 1 < env.ledger().sequence()),', 'C12.R5')
M('C12', 'approve-no-expiry-precondition', TOK, '        assert_with_error!(\n            env,\n            !(amount > 0 && expiration_ledger < env.ledger().sequence()),\n            ContractError::InvalidExpirationLedger\n        );\n', '', 'C12.R5')
M('C12', 'negative-amount-transfer', TOK, '        from.require_auth();\n\n        Self::validate_amount(&env, amount);\n        Self::spend_balance(&env, from.clone(), amount);\n        Self::receive_balance(&env, to.clone(), amount);',
  '        from.require_auth();\n\n        Self::spend_balance(&env, from.clone(), amount);\n        Self::receive_balance(&env, to.clone(), amount);', 'C12.R1')
M('C12', 'validate-amount-strict', TOK, '        assert_with_error!(env, amount >= 0, ContractError::InvalidAmount);', '        assert_with_error!(env, amount > 0, ContractError::InvalidAmount);', 'C12.R1')
M('C12', 'spend-balance-no-sufficiency', TOK, '        assert_with_error!(env, balance >= amount, ContractError::InsufficientBalance);\n', '', 'C12.R2')
M('C12', 'credit-wrong-amount', TOK, '                balance.unwrap_or_default() + amount\n', '                balance.unwrap_or_default() + amount + 1\n', 'C12.R2')
M('C12', 'transfer-credits-sender', TOK, '        Self::spend_balance(&env, from.clone(), amount);\n        Self::receive_balance(&env, to.clone(), amount);\n\n        extend_instance_ttl(&env);\n\n        TokenUtils::new(&env).events().transfer(from, to, amount);',
  '        Self::spend_balance(&env, from.clone(), amount);\n        Self::receive_balance(&env, from.clone(), amount);\n\n        extend_instance_ttl(&env);\n\n        TokenUtils::new(&env).events().transfer(from, to, amount);', 'C12.R2')
M('C12', 'burn_from-keeps-allowance', TOK, '        Self::validate_amount(&env, amount);\n        Self::spend_allowance(&env, from.clone(), spender, amount);\n        Self::spend_balance(&env, from.clone(), amount);\n\n        extend_instance_ttl(&env);\n\n        TokenUtils::new(&env).events().burn(from, amount)',
  '        Self::validate_amount(&env, amount);\n        let a = Self::read_allowance(&env, from.clone(), spender);\n        assert_with_error!(&env, a.amount >= amount, ContractError::InsufficientAllowance);\n        Self::spend_balance(&env, from.clone(), amount);\n\n        extend_instance_ttl(&env);\n\n        TokenUtils::new(&env).events().burn(from, amount)', 'C12.R4')
M('C12', 'spend-allowance-resets-expiry', TOK, '                    .expect("insufficient allowance"),\n                allowance.expiration_ledger,', '                    .expect("insufficient allowance"),\n                env.ledger().sequence() + 100,', 'C12.R4')
M('C12', 'event-swapped-parties', TOK, '        TokenUtils::new(&env).events().transfer(from, to, amount);\n    }\n\n    fn transfer_from', '        TokenUtils::new(&env).events().transfer(to, from, amount);\n    }\n\n    fn transfer_from', 'C12.R6')
M('C12', 'set_admin-new-owner-twice', TOK, '        TokenEvents::new(env).set_admin(previous_owner, new_owner);', '        TokenEvents::new(env).set_admin(Self::owner(env), new_owner);', 'C12.R6')
M('C12', 'mint-no-event', TOK, '        TokenUtils::new(env).events().mint(minter, to, amount);\n', '        let _ = minter;\n', 'C12.R6')
M('C12', 'debit-wrapping', TOK, '        Self::write_balance(env, addr, balance - amount);', '        Self::write_balance(env, addr, balance.wrapping_sub(amount));', 'C12.R2')
M('C12', 'read-allowance-match-equiv', TOK, '                    if allowance.expiration_ledger < env.ledger().sequence() {\n                        AllowanceValue {\n                            amount: 0,\n                            expiration_ledger: allowance.expiration_ledger,\n                        }\n                    } else {\n                        allowance\n                    }',
  '                    if env.ledger().sequence() <= allowance.expiration_ledger {\n                        allowance\n                    } else {\n                        AllowanceValue {\n                            amount: 0,\n                            expiration_ledger: allowance.expiration_ledger,\n                        }\n                    }', equiv=True)

# ---------------- C04 ----------------
M('C04', 'no-hub-chain-check', ITS, '        ensure!(\n            source_chain == Self::its_hub_chain_name(env),\n            ContractError::InvalidHubChain\n        );\n', '', 'C04.R2')
M('C04', 'no-trusted-origin-check', ITS, '        ensure!(\n            Self::is_trusted_chain(env, original_source_chain.clone()),\n            ContractError::UntrustedChain\n        );\n\n        Ok((original_source_chain, inner_message))', '        Ok((original_source_chain, inner_message))', 'C04.R2')
M('C04', 'trusted-check-on-hub-chain', ITS, '            Self::is_trusted_chain(env, original_source_chain.clone()),\n            ContractError::UntrustedChain\n        );\n\n        Ok((original_source_chain', '            Self::is_trusted_chain(env, source_chain.clone()),\n            ContractError::UntrustedChain\n        );\n\n        Ok((original_source_chain', 'C04.R2')
M('C04', 'no-early-type-check-equiv', ITS, '        ensure!(\n            message_type == EncodedMessageType::ReceiveFromHub,\n            ContractError::InvalidMessageType\n        );\n', '        let _ = message_type;\n', equiv=True)
M('C04', 'hub-decode-ignores-type-equiv', ABI, '            MessageType::ReceiveFromHub => {\n                let decoded = ReceiveFromHub::abi_decode_params', '            _ => {\n                let decoded = ReceiveFromHub::abi_decode_params', equiv=True)
M('C04', 'validate-after-effects', ITS, '        Self::validate_message(&env, &source_chain, &message_id, &source_address, &payload)\n            .unwrap_or_else(|err| panic_with_error!(env, err));\n\n        Self::execute_message(&env, source_chain, message_id, source_address, payload)\n            .unwrap_or_else(|err| panic_with_error!(env, err));',
  '        Self::execute_message(&env, source_chain.clone(), message_id.clone(), source_address.clone(), payload.clone())\n            .unwrap_or_else(|err| panic_with_error!(env, err));\n\n        Self::validate_message(&env, &source_chain, &message_id, &source_address, &payload)\n            .unwrap_or_else(|err| panic_with_error!(env, err));', 'C04.R1')
M('C04', 'give-unregistered-token-default', ITS, '                let token_config_value =\n                    Self::token_id_config_with_extended_ttl(env, token_id.clone())?;\n\n                token_handler::give_token(',
  '                let token_config_value = Self::token_id_config_with_extended_ttl(env, token_id.clone())\n                    .unwrap_or(TokenIdConfigValue { token_address: destination_address.clone(), token_manager_type: TokenManagerType::LockUnlock });\n\n                token_handler::give_token(', 'C04.R4')
M('C04', 'accept-send-to-hub-wrapper', ITS, '        else {\n            return Err(ContractError::InvalidMessageType);\n        };\n\n        ensure!(\n            Self::is_trusted_chain',
  '        else {\n            return Err(ContractError::InvalidMessageType);\n        };\n        let _unused = 0;\n\n        ensure!(\n            Self::is_trusted_chain', equiv=True)

# ---------------- C05 ----------------
M('C05', 'transfer-zero-amount-allowed', ITS, '        ensure!(amount > 0, ContractError::InvalidAmount);\n\n        caller.require_auth();', '        caller.require_auth();', 'C05.R1')
M('C05', 'take-half-announce-full', TH, '        TokenManagerType::NativeInterchainToken => token.burn(sender, &amount),', '        TokenManagerType::NativeInterchainToken => token.burn(sender, &(amount / 2)),', 'C05.R2')
M('C05', 'lock-from-service-to-sender', TH, '            token.transfer(sender, &env.current_contract_address(), &amount)', '            token.transfer(&env.current_contract_address(), sender, &amount)', 'C05')
M('C05', 'give-arms-swapped', TH, '        TokenManagerType::NativeInterchainToken => {\n            StellarAssetClient::new(env, &token_address).mint(recipient, &amount)\n        }\n        TokenManagerType::LockUnlock => TokenClient::new(env, &token_address).transfer(\n            &env.current_contract_address(),\n            recipient,\n            &amount,\n        ),',
  '        TokenManagerType::LockUnlock => {\n            StellarAssetClient::new(env, &token_address).mint(recipient, &amount)\n        }\n        TokenManagerType::NativeInterchainToken => TokenClient::new(env, &token_address).transfer(\n            &env.current_contract_address(),\n            recipient,\n            &amount,\n        ),', 'C05.R2')
M('C05', 'announce-wrong-sender', ITS, '            source_address: caller.clone().to_xdr(env),\n            destination_address,', '            source_address: destination_address.clone(),\n            destination_address,', 'C05.R3')
M('C05', 'announce-amount-plus-one', ITS, '            destination_address,\n            amount,\n            data,\n        });', '            destination_address,\n            amount: amount + 1,\n            data,\n        });', 'C05.R3')
M('C05', 'untrusted-destination-allowed', ITS, '        ensure!(\n            Self::is_trusted_chain(env, destination_chain.clone()),\n            ContractError::UntrustedChain\n        );\n\n        let gateway = AxelarGatewayMessagingClient', '        let gateway = AxelarGatewayMessagingClient', 'C05.R4')
M('C05', 'gas-paid-for-other-payload', ITS, '            &hub_address,\n            &payload,\n            &caller,\n            &gas_token,', '            &hub_address,\n            &Bytes::new(env),\n            &caller,\n            &gas_token,', 'C05.R4')
M('C05', 'gas-paid-by-service', ITS, '            &payload,\n            &caller,\n            &gas_token,\n            &Bytes::new(env),', '            &payload,\n            &env.current_contract_address(),\n            &gas_token,\n            &Bytes::new(env),', 'C05.R4')
M('C05', 'call-to-destination-not-hub', ITS, '        gateway.call_contract(\n            &env.current_contract_address(),\n            &hub_chain,', '        gateway.call_contract(\n            &env.current_contract_address(),\n            &destination_chain,', 'C05.R4')
M('C05', 'give-recipient-is-sender', ITS, '                token_handler::give_token(\n                    env,\n                    &destination_address,', '                token_handler::give_token(\n                    env,\n                    &Address::from_xdr(env, &source_address).map_err(|_| ContractError::InvalidDestinationAddress)?,', 'C05')
M('C05', 'give-twice', ITS, '                token_handler::give_token(\n                    env,\n                    &destination_address,\n                    token_config_value.clone(),\n                    amount,\n                )?;\n',
  '                token_handler::give_token(\n                    env,\n                    &destination_address,\n                    token_config_value.clone(),\n                    amount,\n                )?;\n                token_handler::give_token(\n                    env,\n                    &destination_address,\n                    token_config_value.clone(),\n                    amount,\n                )?;\n', 'C05.R5')
M('C05', 'sent-event-wrong-amount', ITS, '            destination_address: destination_address.clone(),\n            amount,\n            data: data.clone(),\n        }\n        .emit(env);\n\n        let message = Message::InterchainTransfer',
  '            destination_address: destination_address.clone(),\n            amount: 0,\n            data: data.clone(),\n        }\n        .emit(env);\n\n        let message = Message::InterchainTransfer', 'C05.R3')
M('C05', 'register-then-sweep-custody', ITS, '        Self::set_token_id_config(\n            env,\n            token_id.clone(),\n            TokenIdConfigValue {\n                token_address,\n                token_manager_type: TokenManagerType::LockUnlock,\n            },\n        );',
  '        token::Client::new(env, &token_address).transfer(&env.current_contract_address(), &Self::owner(env), &0);\n        Self::set_token_id_config(\n            env,\n            token_id.clone(),\n            TokenIdConfigValue {\n                token_address,\n                token_manager_type: TokenManagerType::LockUnlock,\n            },\n        );', 'C05.R6')

# ---------------- C11 ----------------
M('C11', 'register-canonical-overwrites', ITS, '        ensure!(\n            !env.storage()\n                .persistent()\n                .has(&DataKey::TokenIdConfigKey(token_id.clone())),\n            ContractError::TokenAlreadyRegistered\n        );\n', '', 'C11.R3')
M('C11', 'id-without-chain-name', ITS, '                &(\n                    PREFIX_INTERCHAIN_TOKEN_SALT,\n                    chain_name_hash,\n                    deployer,\n                    salt,\n                )', '                &(\n                    PREFIX_INTERCHAIN_TOKEN_SALT,\n                    deployer,\n                    salt,\n                )', 'C11.R1')
M('C11', 'salt-prefix-collision', ITS, 'const PREFIX_CANONICAL_TOKEN_SALT: &str = "canonical-token-salt";', 'const PREFIX_CANONICAL_TOKEN_SALT: &str = "interchain-token-salt";', 'C11.R1')
M('C11', 'id-depends-on-ledger', ITS, '            .keccak256(&(PREFIX_INTERCHAIN_TOKEN_ID, sender, salt).to_xdr(env))', '            .keccak256(&(PREFIX_INTERCHAIN_TOKEN_ID, sender, salt, env.ledger().sequence()).to_xdr(env))', 'C11.R1')
M('C11', 'deploy-salt-not-id', ITS, '            .with_address(env.current_contract_address(), token_id.clone())', '            .with_address(env.current_contract_address(), Self::chain_name_hash(env))', 'C11')
M('C11', 'remote-deploy-overwrites-via-config-only', ITS, '                let deployed_address = Self::deploy_interchain_token_contract(\n                    env,\n                    minter,\n                    token_id.clone(),\n                    token_metadata,\n                );\n\n                Self::set_token_id_config(\n                    env,\n                    token_id,',
  '                let deployed_address = Self::deploy_interchain_token_contract(\n                    env,\n                    minter,\n                    token_id.clone(),\n                    token_metadata,\n                );\n\n                Self::set_token_id_config(\n                    env,\n                    BytesN::from_array(env, &[0; 32]),', 'C11.R3')
M('C11', 'deployer-salt-not-bound-to-caller', ITS, '        let deploy_salt = Self::interchain_token_deploy_salt(env, caller.clone(), salt);\n        let token_id = Self::interchain_token_id(env, Address::zero(env), deploy_salt);\n\n        let deployed_address',
  '        let deploy_salt = Self::interchain_token_deploy_salt(env, Address::zero(env), salt);\n        let token_id = Self::interchain_token_id(env, Address::zero(env), deploy_salt);\n\n        let deployed_address', 'C11.R1')
M('C11', 'initial-supply-to-service', ITS, '            StellarAssetClient::new(env, &deployed_address).mint(&caller, &initial_supply);', '            StellarAssetClient::new(env, &deployed_address).mint(&env.current_contract_address(), &initial_supply);', 'C11.R6')
M('C11', 'token-ctor-owner-not-minter', TOK, '        env.storage().instance().set(&DataKey::Minter(owner), &());\n', '        let _ = owner;\n', 'C11.R4')
M('C11', 'token-ctor-wrong-token-id-slot', TOK, '        env.storage().instance().set(&DataKey::TokenId, &token_id);', '        env.storage().instance().set(&DataKey::TokenId, &BytesN::<32>::from_array(&env, &[0; 32]));\n        let _ = token_id;', 'C11.R4')
M('C11', 'token-ctor-skips-metadata-validation', TOK, '        if let Err(err) = validate_token_metadata(&token_metadata) {\n            panic_with_error!(env, err);\n        }\n', '', 'C11.R4')
M('C11', 'its-transfers-token-ownership', ITS, '            if let Some(minter) = minter {\n                let token = InterchainTokenClient::new(env, &deployed_address);\n                token.remove_minter(&env.current_contract_address());\n                token.add_minter(&minter);',
  '            if let Some(minter) = minter {\n                let token = InterchainTokenClient::new(env, &deployed_address);\n                token.remove_minter(&env.current_contract_address());\n                StellarAssetClient::new(env, &deployed_address).set_admin(&minter);\n                token.add_minter(&minter);', 'C11.R5')

# ---------------- C18 ----------------
M('C18', 'remote-salt-not-bound-to-caller', ITS, '        let deploy_salt = Self::interchain_token_deploy_salt(env, caller.clone(), salt);\n\n        Self::deploy_remote_token', '        let deploy_salt = Self::interchain_token_deploy_salt(env, Address::zero(env), salt);\n\n        Self::deploy_remote_token', 'C18')
M('C18', 'remote-skips-metadata-validation', ITS, '        ensure!(\n            validate_token_metadata(&token_metadata).is_ok(),\n            ContractError::InvalidTokenMetaData\n        );\n\n        let message = Message::DeployInterchainToken', '        let message = Message::DeployInterchainToken', 'C18.R3')
M('C18', 'metadata-decimal-bound-loosened', STD_TOKEN, '        token_metadata.decimal <= u8::MAX.into(),', '        token_metadata.decimal <= u16::MAX.into(),', 'C18.R3')
M('C18', 'remote-announces-minter', ITS, '            decimals: token_metadata.decimal as u8,\n            minter: None,\n        });', '            decimals: token_metadata.decimal as u8,\n            minter: Some(caller.clone().to_xdr(env)),\n        });', 'C18.R5')
M('C18', 'remote-swaps-name-symbol', ITS, '            name: token.name(),\n            decimal: token.decimals(),\n            symbol: token.symbol(),', '            name: token.symbol(),\n            decimal: token.decimals(),\n            symbol: token.name(),', 'C18.R')
M('C18', 'remote-unregistered-ok', ITS, '        let token_address = Self::token_id_config(env, token_id.clone())?.token_address;\n        let token = token::Client::new(env, &token_address);',
  '        let token_address = Self::token_id_config(env, token_id.clone()).map(|c| c.token_address).unwrap_or(caller.clone());\n        let token = token::Client::new(env, &token_address);', 'C18.R3')
M('C18', 'canonical-metadata-from-argument-token-equiv?', ITS, '        let deploy_salt = Self::canonical_token_deploy_salt(env, token_address);\n\n        let token_id =\n            Self::deploy_remote_token',
  '        let deploy_salt = Self::canonical_token_deploy_salt(env, spender.clone());\n        let _ = token_address;\n\n        let token_id =\n            Self::deploy_remote_token', 'C18')
M('C18', 'remote-moves-funds', ITS, '        InterchainTokenDeploymentStartedEvent {\n            token_id: token_id.clone(),\n            token_address,', '        token.transfer(&caller, &env.current_contract_address(), &1);\n        InterchainTokenDeploymentStartedEvent {\n            token_id: token_id.clone(),\n            token_address,', 'C18.R6')
M('C18', 'remote-decimals-constant', ITS, '            decimals: token_metadata.decimal as u8,\n            minter: None,\n        });', '            decimals: 18,\n            minter: None,\n        });', 'C18.R5')

# ---------------- C10 ----------------
M('C10', 'decode-not-strict', ABI, '                let decoded = InterchainTransfer::abi_decode_params(&payload, true)', '                let decoded = InterchainTransfer::abi_decode_params(&payload, false)', 'C10.R1')
M('C10', 'type-decode-not-strict', ABI, '    let message_type = MessageType::abi_decode(&payload[0..32], true)', '    let message_type = MessageType::abi_decode(&payload[0..32], false)', 'C10.R1')
M('C10', 'encode-swaps-source-destination', ABI, '                sourceAddress: source_address.to_alloc_vec().into(),\n                destinationAddress: destination_address.to_alloc_vec().into(),', '                sourceAddress: destination_address.to_alloc_vec().into(),\n                destinationAddress: source_address.to_alloc_vec().into(),', 'C10.R3')
M('C10', 'decode-swaps-name-symbol', ABI, '                    name: String::from_str(env, &decoded.name),\n                    symbol: String::from_str(env, &decoded.symbol),', '                    name: String::from_str(env, &decoded.symbol),\n                    symbol: String::from_str(env, &decoded.name),', 'C10.R3')
M('C10', 'encode-wrong-tag', ABI, '                messageType: MessageType::DeployInterchainToken.into(),', '                messageType: MessageType::InterchainTransfer.into(),', 'C10.R2')
M('C10', 'amount-no-high-check', ABI, '    ensure!(\n        i128::from_le_bytes(bytes_to_remove) == 0,\n        ContractError::InvalidAmount\n    );\n', '    let _ = bytes_to_remove;\n', 'C10.R5')
M('C10', 'amount-no-sign-check', ABI, '    ensure!(i128_value >= 0, ContractError::InvalidAmount);\n', '', 'C10.R5')
M('C10', 'amount-halves-swapped', ABI, '    bytes_to_convert.copy_from_slice(&slice[..16]);\n    bytes_to_remove.copy_from_slice(&slice[16..]);', '    bytes_to_convert.copy_from_slice(&slice[16..]);\n    bytes_to_remove.copy_from_slice(&slice[..16]);', 'C10.R5')
M('C10', 'type-read-without-length-check', ABI, '    ensure!(\n        payload.len() >= 32,\n        ContractError::InsufficientMessageLength\n    );\n', '', 'C10.R6')
M('C10', 'length-check-off-by-one', ABI, '        payload.len() >= 32,', '        payload.len() >= 31,', 'C10.R6')
M('C10', 'decode-empty-data-as-some', ABI, '    if value.is_empty() {\n        None\n    } else {\n        Some(Bytes::from_slice(env, value))\n    }', '    Some(Bytes::from_slice(env, value))', 'C10.R8')
M('C10', 'decoder-unwraps', ABI, '                let decoded = DeployInterchainToken::abi_decode_params(&payload, true)\n                    .map_err(|_| ContractError::AbiDecodeFailed)?;', '                let decoded = DeployInterchainToken::abi_decode_params(&payload, true).unwrap();', 'C10.R7')
M('C10', 'sol-layout-fields-reordered', ABI, '        bytes sourceAddress;\n        bytes destinationAddress;\n        uint256 amount;', '        bytes destinationAddress;\n        bytes sourceAddress;\n        uint256 amount;', 'C10.R4')
M('C10', 'sol-tags-reordered', ABI, '        SendToHub,\n        ReceiveFromHub\n    }', '        ReceiveFromHub,\n        SendToHub\n    }', 'C10.R4')
M('C10', 'decode-decimals-plus-one', ABI, '                    decimals: decoded.decimals,', '                    decimals: decoded.decimals.wrapping_add(1),', 'C10.R3')
M('C10', 'encode-token-id-reversed', ABI, '                tokenId: FixedBytes::<32>::new(token_id.into()),\n                sourceAddress', '                tokenId: { let mut b: [u8; 32] = token_id.into(); b.reverse(); FixedBytes::<32>::new(b) },\n                sourceAddress', 'C10.R3')

# ---------------- behaviour-preserving refactors (all checks of the listed property must stay silent) ----------------
M('C02', 'refactor-approve-for_each', GW, '''        for message in messages.into_iter() {
            let key = MessageApprovalKey {
                source_chain: message.source_chain.clone(),
                message_id: message.message_id.clone(),
            };

            // Prevent replay if message is already approved/executed
            let message_approval = Self::message_approval_by_key(&env, key.clone());
            if message_approval != MessageApprovalValue::NotApproved {
                continue;
            }

            env.storage().persistent().set(
                &DataKey::MessageApproval(key),
                &Self::message_approval_hash(&env, message.clone()),
            );

            event::approve_message(&env, message);
        }
''', '''        messages.into_iter().for_each(|message| {
            let key = MessageApprovalKey {
                source_chain: message.source_chain.clone(),
                message_id: message.message_id.clone(),
            };

            // Prevent replay if message is already approved/executed
            let message_approval = Self::message_approval_by_key(&env, key.clone());
            if message_approval != MessageApprovalValue::NotApproved {
                return;
            }

            env.storage().persistent().set(
                &DataKey::MessageApproval(key),
                &Self::message_approval_hash(&env, message.clone()),
            );

            event::approve_message(&env, message);
        });
''', equiv=True)
MUTANTS.append(dict(MUTANTS[-1], prop='C01', id='refactor-approve-for_each-c01'))
M('C02', 'refactor-validate-helper', GW, """            env.storage().persistent().set(
                &DataKey::MessageApproval(key),
                &MessageApprovalValue::Executed,
            );

            event::execute_message(&env, message);

            return true;
        }

        false
    }
}""", """            mark_executed(&env, key, message);

            return true;
        }

        false
    }
}

fn mark_executed(env: &Env, key: MessageApprovalKey, message: Message) {
    env.storage().persistent().set(
        &DataKey::MessageApproval(key),
        &MessageApprovalValue::Executed,
    );

    event::execute_message(env, message);
}""", equiv=True)
MUTANTS.append(dict(MUTANTS[-1], prop='C07', id='refactor-validate-helper-c07'))
M('C12', 'refactor-debit-checked_sub', TOK, '        Self::write_balance(env, addr, balance - amount);', '        Self::write_balance(env, addr, balance.checked_sub(amount).expect("underflow"));', equiv=True)
M('C01', 'refactor-sigloop-while-let', AUTH, """    for ProofSigner {
        signer: WeightedSigner {
            signer: public_key,
            weight,
        },
        signature,
    } in proof.signers.iter()
    {""", """    let mut it = proof.signers.iter();
    while let Some(ProofSigner {
        signer: WeightedSigner {
            signer: public_key,
            weight,
        },
        signature,
    }) = it.next()
    {""", equiv=True)
M('C06', 'refactor-trusted-chain-if-return', ITS, """        ensure!(
            !env.storage().persistent().has(&key),
            ContractError::TrustedChainAlreadySet
        );""", """        if env.storage().persistent().has(&key) {
            return Err(ContractError::TrustedChainAlreadySet);
        }""", equiv=True)
M('C17', 'refactor-operators-auth-after-key', OPS, """        operator.require_auth();

        let key = DataKey::Operators(operator);
""", """        let key = DataKey::Operators(operator.clone());
        operator.require_auth();
""", equiv=True)
M('C15', 'refactor-upgrader-let-version', UPG, """        ensure!(
            contract_client.version() != new_version,
            ContractError::SameVersion
        );""", """        let current_version = contract_client.version();
        ensure!(current_version != new_version, ContractError::SameVersion);""", equiv=True)
M('C14', 'refactor-gas-amount-alias', GAS, """        ensure!(token.amount > 0, ContractError::InvalidAmount);

        token::Client::new(&env, &token.address).transfer(
            &spender,
            &env.current_contract_address(),
            &token.amount,
        );

        event::gas_added""", """        let amount = token.amount;
        ensure!(amount > 0, ContractError::InvalidAmount);

        let client = token::Client::new(&env, &token.address);
        client.transfer(&spender, &env.current_contract_address(), &amount);

        event::gas_added""", equiv=True)
M('C03', 'refactor-rotate-hash-first', GW, """        if bypass_rotation_delay {
            Self::operator(&env).require_auth();
        }

        let data_hash: BytesN<32> = signers.signers_rotation_hash(&env);
""", """        let data_hash: BytesN<32> = signers.signers_rotation_hash(&env);

        if bypass_rotation_delay {
            Self::operator(&env).require_auth();
        }
""", equiv=True)
MUTANTS.append(dict(MUTANTS[-1], prop='C09', id='refactor-rotate-hash-first-c09'))
MUTANTS.append(dict(MUTANTS[-1], prop='C06', id='refactor-rotate-hash-first-c06'))
M('C05', 'refactor-its-transfer-auth-first', ITS, """        ensure!(amount > 0, ContractError::InvalidAmount);

        caller.require_auth();

        token_handler::take_token(""", """        caller.require_auth();

        ensure!(amount > 0, ContractError::InvalidAmount);

        token_handler::take_token(""", equiv=True)
M('C04', 'refactor-execute-match-result', ITS, """        Self::execute_message(&env, source_chain, message_id, source_address, payload)
            .unwrap_or_else(|err| panic_with_error!(env, err));""", """        match Self::execute_message(&env, source_chain, message_id, source_address, payload) {
            Ok(()) => {}
            Err(err) => panic_with_error!(env, err),
        }""", equiv=True)
MUTANTS.append(dict(MUTANTS[-1], prop='C16', id='refactor-execute-match-result-c16'))
M('C18', 'refactor-remote-metadata-locals', ITS, """        let token_metadata = TokenMetadata {
            name: token.name(),
            decimal: token.decimals(),
            symbol: token.symbol(),
        };
""", """        let name = token.name();
        let symbol = token.symbol();
        let decimal = token.decimals();
        let token_metadata = TokenMetadata {
            name,
            decimal,
            symbol,
        };
""", equiv=True)
M('C11', 'refactor-register-canonical-helper', ITS, """        ensure!(
            !env.storage()
                .persistent()
                .has(&DataKey::TokenIdConfigKey(token_id.clone())),
            ContractError::TokenAlreadyRegistered
        );""", """        ensure!(
            Self::token_id_config(env, token_id.clone()).is_err(),
            ContractError::TokenAlreadyRegistered
        );""", equiv=True)
M('C13', 'refactor-call-contract-hash-local', GW, """        let payload_hash = env.crypto().keccak256(&payload).into();
""", """        let digest = env.crypto().keccak256(&payload);
        let payload_hash: BytesN<32> = digest.into();
""", equiv=True)
M('C10', 'refactor-to_i128-if-return', ABI, """    ensure!(
        i128::from_le_bytes(bytes_to_remove) == 0,
        ContractError::InvalidAmount
    );""", """    if i128::from_le_bytes(bytes_to_remove) != 0 {
        return Err(ContractError::InvalidAmount);
    }""", equiv=True)
M('C08', 'refactor-retention-locals', AUTH, """    ensure!(
        current_epoch - signers_epoch <= previous_signers_retention,
        ContractError::OutdatedSigners
    );""", """    let age = current_epoch - signers_epoch;
    if age > previous_signers_retention {
        return Err(ContractError::OutdatedSigners);
    }""", equiv=True)
MUTANTS.append(dict(MUTANTS[-1], prop='C01', id='refactor-retention-locals-c01'))
M('C01', 'extra-signer-count-limit', AUTH, '    let signers_set = proof.weighted_signers();\n', '    ensure!(proof.signers.len() <= 8, ContractError::InvalidSigners);\n    let signers_set = proof.weighted_signers();\n', 'C01.R7')
M('C01', 'reject-unsigned-entries', AUTH, '        if let ProofSignature::Signed(signature) = signature {', '        if signature == ProofSignature::Unsigned {\n            return false;\n        }\n        if let ProofSignature::Signed(signature) = signature {', 'C01.R7')

# ---------------- behaviour-preserving refactors, batch 2 ----------------
M('C01', 'refactor2-digest-append', AUTH, """    let mut msg: Bytes = domain_separator.into();
    msg.extend_from_array(&signers_hash.to_array());
    msg.extend_from_array(&data_hash.to_array());
""", """    let mut msg = Bytes::new(env);
    msg.append(&domain_separator.into());
    msg.append(&signers_hash.into());
    msg.append(&data_hash.clone().into());
""", equiv=True)
MUTANTS.append(dict(MUTANTS[-1], prop='C03', id='refactor2-digest-append-c03'))
M('C01', 'refactor2-inline-epoch-lookup', AUTH, """    let signers_epoch = epoch_by_signers_hash(env, signers_hash.clone())?;
""", """    let signers_epoch: u64 = env
        .storage()
        .persistent()
        .get(&DataKey::EpochBySignersHash(signers_hash.clone()))
        .ok_or(ContractError::InvalidSignersHash)?;
""", equiv=True)
MUTANTS.append(dict(MUTANTS[-1], prop='C08', id='refactor2-inline-epoch-lookup-c08'))
M('C04', 'refactor2-params-check-order', ITS, """        ensure!(
            message_type == EncodedMessageType::ReceiveFromHub,
            ContractError::InvalidMessageType
        );

        ensure!(
            source_chain == Self::its_hub_chain_name(env),
            ContractError::InvalidHubChain
        );
""", """        ensure!(
            source_chain == Self::its_hub_chain_name(env),
            ContractError::InvalidHubChain
        );

        ensure!(
            message_type == EncodedMessageType::ReceiveFromHub,
            ContractError::InvalidMessageType
        );
""", equiv=True)
M('C05', 'refactor2-message-before-event', ITS, """        InterchainTransferSentEvent {
            token_id: token_id.clone(),
            source_address: caller.clone(),
            destination_chain: destination_chain.clone(),
            destination_address: destination_address.clone(),
            amount,
            data: data.clone(),
        }
        .emit(env);

        let message = Message::InterchainTransfer(InterchainTransfer {
            token_id,
            source_address: caller.clone().to_xdr(env),
            destination_address,
            amount,
            data,
        });
""", """        let message = Message::InterchainTransfer(InterchainTransfer {
            token_id: token_id.clone(),
            source_address: caller.clone().to_xdr(env),
            destination_address: destination_address.clone(),
            amount,
            data: data.clone(),
        });

        InterchainTransferSentEvent {
            token_id,
            source_address: caller.clone(),
            destination_chain: destination_chain.clone(),
            destination_address,
            amount,
            data,
        }
        .emit(env);
""", equiv=True)
M('C14', 'refactor2-collect-if-return', GAS, """        ensure!(token.amount > 0, ContractError::InvalidAmount);

        let token_client = token::Client::new(&env, &token.address);
""", """        if token.amount <= 0 {
            return Err(ContractError::InvalidAmount);
        }

        let token_client = token::Client::new(&env, &token.address);
""", equiv=True)
M('C17', 'refactor2-execute-uses-is_operator', OPS, """        let key = DataKey::Operators(operator);

        ensure!(
            env.storage().instance().has(&key),
            ContractError::NotAnOperator
        );

        let res: Val""", """        ensure!(
            Self::is_operator(env.clone(), operator),
            ContractError::NotAnOperator
        );

        let res: Val""", equiv=True)
MUTANTS.append(dict(MUTANTS[-1], prop='C07', id='refactor2-execute-uses-is_operator-c07'))
M('C15', 'refactor2-migrate-event-before-close', UPI, """    custom_migration();
    complete_migration(env);

    UpgradedEvent {
        version: T::version(env),
    }
    .emit(env);
""", """    custom_migration();

    UpgradedEvent {
        version: T::version(env),
    }
    .emit(env);
    complete_migration(env);
""", equiv=True)
M('C07', 'refactor2-mint_from-member-before-auth', TOK, """        minter.require_auth();

        ensure!(
            Self::is_minter(env, minter.clone()),
            ContractError::NotMinter
        );
""", """        ensure!(
            Self::is_minter(env, minter.clone()),
            ContractError::NotMinter
        );

        minter.require_auth();
""", equiv=True)
MUTANTS.append(dict(MUTANTS[-1], prop='C12', id='refactor2-mint_from-member-before-auth-c12'))
M('C02', 'refactor2-validate-early-false', GW, """        if message_approval == Self::message_approval_hash(&env, message.clone()) {
            env.storage().persistent().set(
                &DataKey::MessageApproval(key),
                &MessageApprovalValue::Executed,
            );

            event::execute_message(&env, message);

            return true;
        }

        false
    }""", """        if message_approval != Self::message_approval_hash(&env, message.clone()) {
            return false;
        }

        env.storage().persistent().set(
            &DataKey::MessageApproval(key),
            &MessageApprovalValue::Executed,
        );

        event::execute_message(&env, message);

        true
    }""", equiv=True)
MUTANTS.append(dict(MUTANTS[-1], prop='C16', id='refactor2-validate-early-false-c16'))
M('C18', 'refactor2-metadata-map-err', ITS, """        ensure!(
            validate_token_metadata(&token_metadata).is_ok(),
            ContractError::InvalidTokenMetaData
        );

        let message = Message::DeployInterchainToken""", """        validate_token_metadata(&token_metadata).map_err(|_| ContractError::InvalidTokenMetaData)?;

        let message = Message::DeployInterchainToken""", equiv=True)
M('C03', 'refactor2-duplicate-check-first', AUTH, """    let new_epoch: u64 = epoch(env) + 1;

    env.storage().instance().set(&DataKey::Epoch, &new_epoch);

    env.storage()
        .persistent()
        .set(&DataKey::SignersHashByEpoch(new_epoch), &new_signers_hash);

    ensure!(
        epoch_by_signers_hash(env, new_signers_hash.clone()).is_err(),
        ContractError::DuplicateSigners
    );
""", """    ensure!(
        epoch_by_signers_hash(env, new_signers_hash.clone()).is_err(),
        ContractError::DuplicateSigners
    );

    let new_epoch: u64 = epoch(env) + 1;

    env.storage().instance().set(&DataKey::Epoch, &new_epoch);

    env.storage()
        .persistent()
        .set(&DataKey::SignersHashByEpoch(new_epoch), &new_signers_hash);
""", equiv=True)
MUTANTS.append(dict(MUTANTS[-1], prop='C08', id='refactor2-duplicate-check-first-c08'))
M('C04', 'refactor2-execute-if-let-validate', ITS, """        Self::validate_message(&env, &source_chain, &message_id, &source_address, &payload)
            .unwrap_or_else(|err| panic_with_error!(env, err));

        Self::execute_message""", """        let validated = Self::validate_message(&env, &source_chain, &message_id, &source_address, &payload);
        if let Err(err) = validated {
            panic_with_error!(env, err);
        }

        Self::execute_message""", equiv=True)
M('C12', 'refactor2-spend-balance-let-new', TOK, """        assert_with_error!(env, balance >= amount, ContractError::InsufficientBalance);

        Self::write_balance(env, addr, balance - amount);""", """        assert_with_error!(env, balance >= amount, ContractError::InsufficientBalance);
        let remaining = balance - amount;

        Self::write_balance(env, addr, remaining);""", equiv=True)
M('C09', 'refactor2-clock-locals-order', AUTH, """    let last_rotation_timestamp: u64 = env
        .storage()
        .instance()
        .get(&DataKey::LastRotationTimestamp)
        .unwrap_or(0);

    let current_timestamp = env.ledger().timestamp();
""", """    let current_timestamp = env.ledger().timestamp();

    let last_rotation_timestamp: u64 = env
        .storage()
        .instance()
        .get(&DataKey::LastRotationTimestamp)
        .unwrap_or_default();
""", equiv=True)
M('C10', 'refactor2-amount-try_from', ABI, """                    amount: to_i128(decoded.amount)?,""", """                    amount: i128::try_from(decoded.amount).map_err(|_| ContractError::InvalidAmount)?,""", equiv=True)
MUTANTS.append(dict(MUTANTS[-1], prop='C05', id='refactor2-amount-try_from-c05'))

# ---------------- gaps found by the global fact-level survivor analysis ----------------
M('C06', 'transfer-ownership-does-not-transfer', OWN, '    set_owner(env, &new_owner);\n\n    OwnershipTransferredEvent', '    OwnershipTransferredEvent', 'C06.R2')
M('C02', 'validate-no-executed-event', GW, '            event::execute_message(&env, message);\n\n            return true;', '            let _ = message;\n\n            return true;', 'C02.R3')
M('C11', 'token-add_minter-noop', TOK, '        env.storage()\n            .instance()\n            .set(&DataKey::Minter(minter.clone()), &());\n\n        extend_instance_ttl(env);\n\n        event::add_minter(env, minter);', '        extend_instance_ttl(env);\n\n        event::add_minter(env, minter);', 'C11.R4')
M('C04', 'remove_trusted_chain-noop', ITS, '        env.storage().persistent().remove(&key);\n\n        TrustedChainRemovedEvent', '        TrustedChainRemovedEvent', 'C04.R2')
M('C10', 'from_vec-inverted', ABI, '    if value.is_empty() {\n        None\n    } else {\n        Some(Bytes::from_slice(env, value))\n    }', '    if !value.is_empty() {\n        None\n    } else {\n        Some(Bytes::from_slice(env, value))\n    }', 'C10.R8')
M('C12', 'overflow-checks-off', 'Cargo.toml', 'overflow-checks = true', 'overflow-checks = false', 'C12.R2')
M('C03', 'overflow-checks-off-c03', 'Cargo.toml', 'overflow-checks = true', 'overflow-checks = false', 'C03.R2')
M('C01', 'constructor-forgets-domain-separator', AUTH, '    env.storage()\n        .instance()\n        .set(&DataKey::DomainSeparator, &domain_separator);\n', '    let _ = &domain_separator;\n', 'C01.R5')
M('C05', 'executable-call-swaps-id-and-chain', ITS, '                        &source_chain,\n                        &message_id,\n                        &source_address,\n                        &payload,', '                        &message_id,\n                        &source_chain,\n                        &source_address,\n                        &payload,', 'C05.R5')
M('C12', 'approve-zero-with-past-expiry-refused', TOK, '            !(amount > 0 && expiration_ledger < env.ledger().sequence()),', '            !(amount >= 0 && expiration_ledger < env.ledger().sequence()),', 'C12.R5')

# ---------------- defects seeded into independently REFACTORED code (base = selftest/refactors/<name>.diff) ----------------
GAS_ = 'contracts/axelar-gas-service/src/contract.rs'
UPG = 'packages/axelar-soroban-std/src/interfaces/upgradable.rs'
M('C02', 'is-executed-matches-approved', GW, 'message_approval == MessageApprovalValue::Executed', 'matches!(message_approval, MessageApprovalValue::Approved(_))', 'C02.R4')
M('C02', 'refactor3-is-executed-matches', GW, 'message_approval == MessageApprovalValue::Executed', 'matches!(message_approval, MessageApprovalValue::Executed)', equiv=True)
M('C02', 'rf-gwmsg2-validate-inverted', GW, '        if message_approval != Self::message_approval_hash(&env, &message) {\n            return false;', '        if message_approval == Self::message_approval_hash(&env, &message) {\n            return false;', 'C02.R3', base='gwmsg-2')
M('C02', 'rf-gwmsg2-executed-matches-notapproved', GW, '            MessageApprovalValue::Executed\n        )', '            MessageApprovalValue::NotApproved\n        )', 'C02.R4', base='gwmsg-2')
M('C10', 'rf-abi1-split-at-8', ABI, 'value.as_le_slice().split_at(16)', 'value.as_le_slice().split_at(8)', 'C10.R5', base='abi-1')
M('C10', 'rf-abi1-halves-swapped', ABI, 'let (low_half, high_half) = value', 'let (high_half, low_half) = value', 'C10.R5', base='abi-1')
M('C10', 'rf-abi1-get-31', ABI, 'payload.get(..32)', 'payload.get(..31)', 'C10.R6', base='abi-1')
M('C10', 'rf-abi1-then-inverted', ABI, '(!value.is_empty()).then(', '(value.is_empty()).then(', 'C10.R8', base='abi-1')
M('C10', 'rf-abi3-none-is-zero-byte', ABI, 'value.map_or_else(alloc::vec::Vec::new, ', 'value.map_or_else(|| alloc::vec![0u8], ', 'C10.R8', base='abi-3')
M('C15', 'rf-gasops3-window-test-inverted', UPG, '    if !is_migrating(env) {', '    if is_migrating(env) {', 'C15.R2', base='gasops-3')
M('C15', 'rf-gasops3-flag-not-removed', UPG, '    env.storage().instance().remove(&MIGRATING_KEY);\n', '    let _ = &MIGRATING_KEY;\n', 'C15.R2', base='gasops-3')
M('C04', 'rf-itsexec2-untrusted-accepted', ITS, '        Self::is_trusted_chain(env, original_source_chain.clone())\n            .then_some(', '        (!Self::is_trusted_chain(env, original_source_chain.clone()))\n            .then_some(', 'C04.R2', base='itsexec-2')
M('C04', 'rf-itsexec2-send-to-hub-accepted', ITS, '            HubMessage::SendToHub { .. } => return Err(ContractError::InvalidMessageType),', '            HubMessage::SendToHub { destination_chain, message } => (destination_chain, message),', 'C04.R2', base='itsexec-2')
M('C11', 'rf-itsdeploy1-minter-dropped', ITS, '            Some(requested) => Ok(Some(requested.clone())),', '            Some(_) => Ok(None),', 'C11.R6', base='itsdeploy-1')
M('C17', 'rf-gasops2-remove-absent-accepted', 'contracts/axelar-operators/src/contract.rs', '            .has(&key)\n            .then_some(())', '            .has(&key)\n            .then_some(())\n            .or(Some(()))', 'C17.R3', base='gasops-2')
M('C15', 'rf-gasops2-upgrader-version-check-inverted', 'contracts/upgrader/src/contract.rs', '        (upgraded_version == new_version)\n            .then_some(())', '        (upgraded_version != new_version)\n            .then_some(())', 'C15.R4', base='gasops-2')
M('C07', 'mint-negative-amount', TOK, """        Self::validate_amount(env, amount);

        Self::receive_balance(env, to.clone(), amount);

        extend_instance_ttl(env);

        TokenUtils::new(env).events().mint(""", """        Self::receive_balance(env, to.clone(), amount);

        extend_instance_ttl(env);

        TokenUtils::new(env).events().mint(""", 'C07.G')
M('C06', 'refund-auth-for-args', GAS_, """        Self::gas_collector(&env).require_auth();

        token::Client::new(&env, &token.address).transfer(
            &env.current_contract_address(),
            &receiver,""", """        Self::gas_collector(&env).require_auth_for_args(soroban_sdk::IntoVal::into_val(&(message_id.clone(), receiver.clone()), &env));

        token::Client::new(&env, &token.address).transfer(
            &env.current_contract_address(),
            &receiver,""", 'C06.R1')
M('C03', 'rf-gwauth1-order-not-strict', AUTH, '            if previous_signer >= signer {', '            if previous_signer > signer {', 'C03.R1', base='gwauth-1')
M('C03', 'rf-gwauth1-zero-weight-ok', AUTH, '            if weight == 0 {\n                return Err(ContractError::InvalidWeight);\n            }\n', '', 'C03.R1', base='gwauth-1')
M('C03', 'rf-gwauth1-bad-order-skips-element', AUTH, '            if previous_signer >= signer {\n                return Err(ContractError::InvalidSigners);', '            if previous_signer >= signer {\n                return Ok(());', 'C03.R1', base='gwauth-1')
M('C03', 'rf-gwauth1-prev-not-updated', AUTH, '            previous_signer = signer;\n            total_weight = total_weight', '            total_weight = total_weight', 'C03.R1', base='gwauth-1')
M('C03', 'rf-gwauth1-threshold-above-total', AUTH, '    if threshold == 0 || total_weight < threshold {', '    if threshold == 0 {', 'C03.R1', base='gwauth-1')
M('C01', 'rf-gwauth1-unsigned-counted', AUTH, '        let ProofSignature::Signed(signature) = proof_signer.signature else {\n            continue;\n        };', '        let signature = match proof_signer.signature { ProofSignature::Signed(s) => s, ProofSignature::Unsigned => BytesN::from_array(env, &[0; 64]) };', 'C01', base='gwauth-1')

# ---------------- loop <-> iterator-consumer rewrites (closure spliced into the caller by analysis/iterinline.py) ----------------
_SIGLOOP = """    for ProofSigner {
        signer: WeightedSigner {
            signer: public_key,
            weight,
        },
        signature,
    } in proof.signers.iter()
    {
        if let ProofSignature::Signed(signature) = signature {
            env.crypto()
                .ed25519_verify(&public_key, msg_hash.to_bytes().as_ref(), &signature);

            total_weight = total_weight.checked_add(weight).unwrap();

            if total_weight >= proof.threshold {
                return true;
            }
        }
    }

    false
}"""
_SIGANY = """    let threshold = proof.threshold;
    proof.signers.iter().any(|ProofSigner { signer: WeightedSigner { signer: public_key, weight }, signature }| {
        if let ProofSignature::Signed(signature) = signature {
            env.crypto()
                .ed25519_verify(&public_key, msg_hash.to_bytes().as_ref(), &signature);

            total_weight = total_weight.checked_add(weight).unwrap();

            if total_weight >= threshold {
                return true;
            }
        }
        false
    })
}"""
for _p in ('C01', 'C08', 'C03'):
    M(_p, 'refactor3-sigloop-any-' + _p.lower(), AUTH, _SIGLOOP, _SIGANY, equiv=True)
M('C01', 'sigloop-any-weight-before-verify', AUTH, _SIGLOOP, _SIGANY.replace("""            env.crypto()
                .ed25519_verify(&public_key, msg_hash.to_bytes().as_ref(), &signature);

            total_weight = total_weight.checked_add(weight).unwrap();
""", """            total_weight = total_weight.checked_add(weight).unwrap();
            if total_weight >= threshold {
                return true;
            }
            env.crypto()
                .ed25519_verify(&public_key, msg_hash.to_bytes().as_ref(), &signature);
"""), 'C01')
M('C01', 'sigloop-any-unsigned-ends-true', AUTH, _SIGLOOP, _SIGANY.replace("        false\n    })", "        true\n    })"), 'C01')
_CTORLOOP = """    for signers in initial_signers.into_iter() {
        rotate_signers(&env, &signers, false)?;
    }

    Ok(())"""
for _p in ('C03', 'C08', 'C09', 'C01'):
    M(_p, 'refactor3-ctor-try_for_each-' + _p.lower(), AUTH, _CTORLOOP, """    initial_signers
        .into_iter()
        .try_for_each(|signers| rotate_signers(&env, &signers, false))""", equiv=True)
M('C03', 'ctor-for_each-swallows-errors', AUTH, _CTORLOOP, """    initial_signers
        .into_iter()
        .for_each(|signers| { let _ = rotate_signers(&env, &signers, false); });

    Ok(())""", 'C03')
_VSLOOP = """    let mut total_weight = 0u128;

    for signer in weighted_signers.signers.iter() {
        ensure!(
            previous_signer < signer.signer,
            ContractError::InvalidSigners
        );

        ensure!(signer.weight != 0, ContractError::InvalidWeight);

        previous_signer = signer.signer;
        total_weight = total_weight
            .checked_add(signer.weight)
            .ok_or(ContractError::WeightOverflow)?;
    }
"""
_VSFOLD = """    let total_weight = weighted_signers.signers.iter().try_fold(0u128, |total_weight, signer| {
        ensure!(
            previous_signer < signer.signer,
            ContractError::InvalidSigners
        );

        ensure!(signer.weight != 0, ContractError::InvalidWeight);

        previous_signer = signer.signer;
        total_weight
            .checked_add(signer.weight)
            .ok_or(ContractError::WeightOverflow)
    })?;
"""
M('C03', 'refactor3-validate-signers-try_fold', AUTH, _VSLOOP, _VSFOLD, equiv=True)
M('C03', 'validate-signers-try_fold-wrapping', AUTH, _VSLOOP, _VSFOLD.replace("""        total_weight
            .checked_add(signer.weight)
            .ok_or(ContractError::WeightOverflow)""", """        Ok(total_weight.wrapping_add(signer.weight))"""), 'C03.R1')
M('C02', 'rf-gwmsg4-consume-any-approved', GW, '            MessageApprovalValue::Approved(hash) if hash == expected_hash => {', '            MessageApprovalValue::Approved(_) => {', 'C02.R3', base='gwmsg-4')
M('C02', 'rf-gwmsg4-reapprove-approved', GW, '            if let MessageApprovalValue::NotApproved =\n', '            if let MessageApprovalValue::Approved(_) =\n', 'C02.R2', base='gwmsg-4')
M('C02', 'rf-gwmsg4-query-ignores-hash', GW, 'matches!(message_approval, MessageApprovalValue::Approved(hash) if hash == expected_hash)', 'matches!(message_approval, MessageApprovalValue::Approved(_))', 'C02.R4', base='gwmsg-4')
M('C16', 'rf-gwmsg4-consume-any-approved-c16', GW, '            MessageApprovalValue::Approved(hash) if hash == expected_hash => {', '            MessageApprovalValue::Approved(_) => {', 'C16.R4', base='gwmsg-4')
M('C01', 'rf-gwauth6-bad-signatures-accepted', AUTH, '        .then_some(is_latest_signers)\n        .ok_or(ContractError::InvalidSignatures)', '        .then_some(is_latest_signers)\n        .or(Some(is_latest_signers))\n        .ok_or(ContractError::InvalidSignatures)', 'C01', base='gwauth-6')
M('C12', 'rf-token5-negative-amount-ok', TOK, '        Self::require(env, amount >= 0, ContractError::InvalidAmount);', '        Self::require(env, amount >= i128::MIN, ContractError::InvalidAmount);', 'C12.R1', base='token-5')
M('C12', 'rf-token5-require-inverted', TOK, '        if !condition {\n            panic_with_error!(env, error);', '        if condition {\n            panic_with_error!(env, error);', 'C12', base='token-5')
M('C12', 'rf-token5-expiry-exclusive', TOK, '            Some(expired) if expired.expiration_ledger < env.ledger().sequence() => {', '            Some(expired) if expired.expiration_ledger <= env.ledger().sequence() => {', 'C12.R5', base='token-5')
M('C12', 'rf-token5-approve-past-expiry-ok', TOK, '            !(grants_spending && expiration_ledger < env.ledger().sequence()),', '            !(grants_spending && expiration_ledger > env.ledger().sequence()),', 'C12.R5', base='token-5')
M('C12', 'rf-token5-insufficient-allowance-ok', TOK, '            allowance.amount >= amount,\n            ContractError::InsufficientAllowance,', '            allowance.amount >= 0,\n            ContractError::InsufficientAllowance,', None, base='token-5')
M('C12', 'rf-token5-insufficient-balance-ok', TOK, '        Self::require(env, balance >= amount, ContractError::InsufficientBalance);', '        Self::require(env, balance >= 0, ContractError::InsufficientBalance);', 'C12.R2', base='token-5')
M('C12', 'rf-token5-default-allowance-100', TOK, '    const NO_ALLOWANCE: AllowanceValue = AllowanceValue {\n        amount: 0,', '    const NO_ALLOWANCE: AllowanceValue = AllowanceValue {\n        amount: 100,', 'C12.R5', base='token-5')
M('C10', 'rf-abi4-any-byte-zero', ABI, '.iter().all(|&byte| byte == 0)', '.iter().any(|&byte| byte == 0)', 'C10.R5', base='abi-4')
M('C10', 'rf-abi4-high-half-skips-a-byte', ABI, 'slice[I128_SIZE..].iter()', 'slice[I128_SIZE + 1..].iter()', 'C10.R5', base='abi-4')
M('C10', 'rf-abi4-negative-accepted', ABI, '.filter(|amount| !amount.is_negative())', '.filter(|amount| amount.is_negative())', 'C10.R5', base='abi-4')
M('C10', 'rf-abi4-high-half-unchecked', ABI, '    ensure!(upper_half_is_zero, ContractError::InvalidAmount);', '    let _ = upper_half_is_zero;', 'C10.R5', base='abi-4')
M('C10', 'rf-abi4-one-byte-is-none', ABI, '        [] => None,', '        [_] => None,', 'C10.R8', base='abi-4')
M('C10', 'rf-abi4-all-nonzero-continues', ABI, '.iter().all(|&byte| byte == 0)', '.iter().all(|&byte| byte == 0 || byte == 1)', 'C10.R5', base='abi-4')

# ---------------- additive edits that leave every property intact ----------------
_GWVIEW = ('#[contractimpl]\nimpl AxelarGateway {\n    /// Initialize the gateway\n', '''#[contractimpl]
impl AxelarGateway {
    /// Status of a message as a small integer (0 = unknown, 1 = approved, 2 = executed)
    pub fn message_status_code(env: Env, source_chain: String, message_id: String) -> u32 {
        match Self::message_approval(&env, source_chain, message_id) {
            MessageApprovalValue::NotApproved => 0,
            MessageApprovalValue::Approved(_) => 1,
            MessageApprovalValue::Executed => 2,
        }
    }

    /// Initialize the gateway
''')
for _p in ('C01', 'C02', 'C03', 'C06', 'C07', 'C08', 'C09', 'C13', 'C15', 'C16'):
    M(_p, 'additive-gateway-view-entry-' + _p.lower(), GW, _GWVIEW[0], _GWVIEW[1], equiv=True)
for _p in ('C12', 'C07', 'C11', 'C06'):
    M(_p, 'additive-token-extra-ttl-bump-' + _p.lower(), TOK, '        from.require_auth();\n\n        Self::validate_amount(&env, amount);\n        Self::spend_balance(&env, from.clone(), amount);\n        Self::receive_balance(&env, to.clone(), amount);\n',
      '        from.require_auth();\n        extend_instance_ttl(&env);\n\n        Self::validate_amount(&env, amount);\n        Self::spend_balance(&env, from.clone(), amount);\n        Self::receive_balance(&env, to.clone(), amount);\n', equiv=True)

# ---------------- index-based loops ----------------
_VS_FOR = "    for signer in weighted_signers.signers.iter() {\n        ensure!("
M('C03', 'refactor4-validate-signers-index-loop', AUTH, _VS_FOR, "    for i in 0..weighted_signers.signers.len() {\n        let signer = weighted_signers.signers.get(i).unwrap();\n        ensure!(", equiv=True)
M('C03', 'refactor4-validate-signers-index-loop-unchecked', AUTH, _VS_FOR, "    for i in 0..weighted_signers.signers.len() {\n        let signer = weighted_signers.signers.get_unchecked(i);\n        ensure!(", equiv=True)
M('C03', 'validate-signers-index-loop-skips-first', AUTH, _VS_FOR, "    for i in 1..weighted_signers.signers.len() {\n        let signer = weighted_signers.signers.get(i).unwrap();\n        ensure!(", 'C03.R1')
M('C03', 'validate-signers-index-loop-always-first', AUTH, _VS_FOR, "    for i in 0..weighted_signers.signers.len() {\n        let _ = i;\n        let signer = weighted_signers.signers.get(0).unwrap();\n        ensure!(", 'C03.R1')
_AP_FOR = "        for message in messages.into_iter() {\n"
for _p in ('C02', 'C01', 'C16'):
    M(_p, 'refactor4-approve-index-loop-' + _p.lower(), GW, _AP_FOR, "        for i in 0..messages.len() {\n            let message = messages.get_unchecked(i);\n", equiv=True)
M('C02', 'approve-index-loop-skips-last', GW, _AP_FOR, "        for i in 0..messages.len() - 1 {\n            let message = messages.get_unchecked(i);\n", 'C02')
M('C03', 'refactor4-validate-signers-while-let-next', AUTH, _VS_FOR, "    let mut remaining = weighted_signers.signers.iter();\n    while let Some(signer) = remaining.next() {\n        ensure!(", equiv=True)
M('C03', 'refactor4-validate-signers-loop-let-else', AUTH, _VS_FOR, "    let mut remaining = weighted_signers.signers.iter();\n    loop {\n        let Some(signer) = remaining.next() else { break };\n        ensure!(", equiv=True)

# ---------------- a private helper replaced by a local closure that captures and mutates local state (spliced at its call sites) ----------------
_ACC = """            total_weight = total_weight.checked_add(weight).unwrap();

            if total_weight >= proof.threshold {
                return true;
            }"""
_ACC_CALL = """            if add_weight(weight) {
                return true;
            }"""
_ACC_DECL = ("    let mut total_weight = 0u128;\n\n    for ProofSigner {", """    let mut total_weight = 0u128;
    let threshold = proof.threshold;
    let mut add_weight = |weight: u128| {
        total_weight = total_weight.checked_add(weight).unwrap();
        total_weight >= threshold
    };

    for ProofSigner {""")


def _two(src_pairs):
    return src_pairs


for _p in ('C01', 'C08'):
    MUTANTS.append(dict(prop=_p, id='refactor4-sigloop-local-closure-' + _p.lower(), file=AUTH, find=_ACC, replace=_ACC_CALL, expect=None, equiv=True, base=None,
                        also=[_ACC_DECL]))
MUTANTS.append(dict(prop='C01', id='sigloop-local-closure-no-accumulation', file=AUTH, find=_ACC, replace=_ACC_CALL, expect='C01', equiv=False, base=None,
                    also=[(_ACC_DECL[0], _ACC_DECL[1].replace("total_weight = total_weight.checked_add(weight).unwrap();\n        total_weight >= threshold", "let _ = &mut total_weight;\n        weight >= threshold"))]))
M('C03', 'rf-gwauth7-counter-step-2', AUTH, "            .ok_or(ContractError::WeightOverflow)?;\n        index += 1;", "            .ok_or(ContractError::WeightOverflow)?;\n        index += 2;", 'C03.R1', base='gwauth-7')
M('C03', 'rf-gwauth7-counter-starts-at-1', AUTH, "    let signers_count = signers.len();\n    let mut index = 0;", "    let signers_count = signers.len();\n    let mut index = 1;", 'C03.R1', base='gwauth-7')
M('C03', 'rf-gwauth7-ctor-skips-odd-sets', AUTH, "        rotate_signers(&env, &initial_signers.get_unchecked(index), false)?;\n        index += 1;", "        rotate_signers(&env, &initial_signers.get_unchecked(index), false)?;\n        index += 2;", 'C03', base='gwauth-7')
M('C01', 'rf-gwauth7-sigloop-wrong-vector', AUTH, "        } = proof.signers.get_unchecked(index);", "        } = proof.signers.get_unchecked(0);", 'C01', base='gwauth-7')
M('C08', 'rf-gwauth8-outdated-accepted', AUTH, "            SignersStanding::Outdated => return Err(ContractError::OutdatedSigners),", "            SignersStanding::Outdated => false,", 'C08.R2', base='gwauth-8')
M('C01', 'rf-gwauth8-outdated-accepted-c01', AUTH, "            SignersStanding::Outdated => return Err(ContractError::OutdatedSigners),", "            SignersStanding::Outdated => false,", 'C01', base='gwauth-8')
M('C08', 'rf-gwauth8-retention-strict', AUTH, "        } else if current_epoch - signers_epoch <= previous_signers_retention {", "        } else if current_epoch - signers_epoch < previous_signers_retention {", 'C08', base='gwauth-8')
M('C09', 'rf-gwauth8-delay-enum-inverted', AUTH, "        if enforce_rotation_delay {\n            Self::Enforced\n        } else {\n            Self::Bypassed\n        }", "        if enforce_rotation_delay {\n            Self::Bypassed\n        } else {\n            Self::Enforced\n        }", 'C09.R1', base='gwauth-8')
M('C08', 'rf-gwauth8-latest-check-dropped', GW, "                ensure!(is_latest_signers, ContractError::NotLatestSigners);\n                true", "                let _ = is_latest_signers;\n                true", 'C08.R3', base='gwauth-8')
M('C06', 'rf-gwauth8-operator-path-enforces-nothing', GW, "            RotationAuthority::Operator => false,", "            RotationAuthority::Operator => false,\n            #[allow(unreachable_patterns)]\n            RotationAuthority::LatestSigners if is_latest_signers => false,", 'C06.R3', base='gwauth-8')
GAS_C = 'contracts/axelar-gas-service/src/contract.rs'
M('C14', 'rf-gasops7-inbound-direction-swapped', GAS_C, "            Self::Inbound { spender } => (*spender, &this_contract),", "            Self::Inbound { spender } => (&this_contract, *spender),", 'C14.R3', base='gasops-7')
M('C14', 'rf-gasops7-refund-uses-inbound', GAS_C, "        Flow::Outbound {\n            receiver: &receiver,\n        }\n        .settle(&env, &token);\n\n        event::refunded", "        Flow::Inbound { spender: &receiver }.settle(&env, &token);\n\n        event::refunded", 'C14', base='gasops-7')
M('C07', 'rf-gasops7-inbound-direction-swapped-c07', GAS_C, "            Self::Inbound { spender } => (*spender, &this_contract),", "            Self::Inbound { spender } => (&this_contract, *spender),", None, base='gasops-7')
M('C02', 'rf-gwmsg7-approve-known-message', GW, "            if is_new_message {", "            if !is_new_message {", 'C02.R2', base='gwmsg-7')
M('C02', 'rf-gwmsg7-validate-returns-true', GW, "        is_approved\n    }", "        let _ = is_approved;\n        true\n    }", 'C02.R3', base='gwmsg-7')
M('C11', 'rf-token6-owner-not-registered', TOK, "        core::iter::once(owner)\n            .chain(minter)\n            .for_each(", "        minter\n            .into_iter()\n            .for_each(", 'C11.R4', base='token-6')
M('C11', 'rf-token6-minter-not-registered', TOK, "        core::iter::once(owner)\n            .chain(minter)\n            .for_each(", "        core::iter::once(owner)\n            .chain(minter.filter(|_| false))\n            .for_each(", 'C11', base='token-6')
M('C10', 'rf-abi7-encode-direction-swapped', ABI, "            } => (HubDirection::ToHub, destination_chain, message),", "            } => (HubDirection::FromHub, destination_chain, message),", 'C10', base='abi-7')
M('C10', 'rf-abi7-decode-variants-swapped', ABI, "            HubDirection::ToHub => Self::SendToHub {\n                destination_chain: chain,\n                message,\n            },\n            HubDirection::FromHub => Self::ReceiveFromHub {\n                source_chain: chain,\n                message,\n            },", "            HubDirection::FromHub => Self::SendToHub {\n                destination_chain: chain,\n                message,\n            },\n            HubDirection::ToHub => Self::ReceiveFromHub {\n                source_chain: chain,\n                message,\n            },", 'C10', base='abi-7')
M('C04', 'rf-abi7-decode-variants-swapped-c04', ABI, "            HubDirection::ToHub => Self::SendToHub {\n                destination_chain: chain,\n                message,\n            },\n            HubDirection::FromHub => Self::ReceiveFromHub {\n                source_chain: chain,\n                message,\n            },", "            HubDirection::FromHub => Self::SendToHub {\n                destination_chain: chain,\n                message,\n            },\n            HubDirection::ToHub => Self::ReceiveFromHub {\n                source_chain: chain,\n                message,\n            },", 'C04', base='abi-7')
M('C09', 'rf-gwrotate4-delay-enum-inverted', AUTH, "        if enforce_rotation_delay {\n            Self::Enforced\n        } else {\n            Self::Bypassed\n        }", "        if enforce_rotation_delay {\n            Self::Bypassed\n        } else {\n            Self::Enforced\n        }", None, equiv=True, base='gwrotate-4')
M('C09', 'rf-gwrotate4-entry-maps-bypass-to-enforced', GW, "        let rotation_delay = if bypass_rotation_delay {\n            RotationDelay::Bypassed\n        } else {\n            RotationDelay::Enforced\n        };", "        let rotation_delay = if bypass_rotation_delay {\n            RotationDelay::Enforced\n        } else {\n            RotationDelay::Bypassed\n        };", 'C09.R1', base='gwrotate-4')
M('C05', 'rf-itsadmin5-take-mints', 'contracts/interchain-token-service/src/token_handler.rs', "            (Direction::Take, TokenManagerType::NativeInterchainToken) => Self::Burn,", "            (Direction::Take, TokenManagerType::NativeInterchainToken) => Self::Mint,", 'C05.R2', base='itsadmin-5')
M('C04', 'rf-itsadmin5-give-locks', 'contracts/interchain-token-service/src/token_handler.rs', "            (Direction::Give, TokenManagerType::LockUnlock) => Self::Unlock,", "            (Direction::Give, TokenManagerType::LockUnlock) => Self::Lock,", 'C04', base='itsadmin-5')
M('C11', 'rf-itsdeploy9-handover-without-supply', ITS, "minter.filter(|_| has_initial_supply)", "minter.filter(|_| !has_initial_supply)", 'C11', base='itsdeploy-9')
M('C03', 'total-weight-not-accumulated', AUTH, "        total_weight = total_weight\n            .checked_add(signer.weight)\n            .ok_or(ContractError::WeightOverflow)?;", "        total_weight = 0u128\n            .checked_add(signer.weight)\n            .ok_or(ContractError::WeightOverflow)?;", 'C03.R1')
M('C01', 'signed-weight-not-accumulated', AUTH, "            total_weight = total_weight.checked_add(weight).unwrap();", "            total_weight = 0u128.checked_add(weight).unwrap();", 'C01')
M('C03', 'rf-gwauth12-walk-total-not-accumulated', AUTH, "        self.total_weight = self\n            .total_weight\n            .checked_add(signer.weight)", "        self.total_weight = 0u128\n            .checked_add(signer.weight)", 'C03.R1', base='gwauth-12')
M('C03', 'rf-gwauth12-walk-prev-not-updated', AUTH, "        self.previous_signer = signer.signer;\n", "", 'C03.R1', base='gwauth-12')
M('C08', 'rf-gwauth12-old-set-rotates-without-bypass', GW, "            (false, false) => Err(ContractError::NotLatestSigners),", "            (false, false) => auth::rotate_signers(&env, &signers, true),", 'C08.R3', base='gwauth-12')
M('C09', 'rf-gwauth12-bypass-arm-enforces-wrongly', GW, "            (false, true) => auth::rotate_signers(&env, &signers, true),", "            (false, true) => auth::rotate_signers(&env, &signers, false),", 'C09.R1', base='gwauth-12')
M('C03', 'rf-gwrotate9-duplicate-check-inverted', AUTH, "        installed_epoch(env, &new_signers_hash).is_none(),", "        installed_epoch(env, &new_signers_hash).is_some(),", 'C03.R2', base='gwrotate-9')
M('C16', 'rf-example7-approval-ignored', 'contracts/axelar-gateway/src/executable.rs', "            return Ok(());\n        }\n\n        Err(ExecutableError::NotApproved)", "            return Ok(());\n        }\n\n        Ok(())", 'C16.R1', base='example-7')

# ---------------- new entry points ----------------
M('C02', 'new-entry-writes-status-directly', GW, _GWVIEW[0], '''#[contractimpl]
impl AxelarGateway {
    /// (added) marks a message executed
    pub fn mark_executed(env: Env, source_chain: String, message_id: String) {
        let key = MessageApprovalKey { source_chain, message_id };
        env.storage().persistent().set(&DataKey::MessageApproval(key), &MessageApprovalValue::Executed);
    }

    /// Initialize the gateway
''', 'C02.R1')
M('C02', 'additive-wrapper-entry-around-validate', GW, _GWVIEW[0], '''#[contractimpl]
impl AxelarGateway {
    /// (added) struct-argument alias of validate_message
    pub fn validate_approved_message(env: Env, message: Message) -> bool {
        let Message { source_chain, message_id, source_address, contract_address, payload_hash } = message;
        <Self as AxelarGatewayMessagingInterface>::validate_message(env, contract_address, source_chain, message_id, source_address, payload_hash)
    }

    /// Initialize the gateway
''', equiv=True)

# ---------------- defects in NEW balance-writing entries (generic per-write obligations of C12.R3) ----------------
M('C12', 'ft-transfer_batch-negative-amount', TOK, "            Self::validate_amount(env, amount);\n            Self::spend_balance(env, from.clone(), amount);", "            Self::spend_balance(env, from.clone(), amount);", 'C12.R3', base='features/token-f2')
M('C12', 'ft-transfer_batch-no-auth', TOK, "        from.require_auth();\n\n        for (to, amount) in transfers.iter() {", "        for (to, amount) in transfers.iter() {", 'C12.R3', base='features/token-f2')
M('C12', 'ft-transfer_batch-credit-more', TOK, "            Self::receive_balance(env, to.clone(), amount);\n\n            TokenUtils::new(env)", "            Self::receive_balance(env, to.clone(), amount + 1);\n\n            TokenUtils::new(env)", 'C12.R3', base='features/token-f2')
M('C12', 'ft-transfer_batch-credit-without-debit', TOK, "            Self::spend_balance(env, from.clone(), amount);\n            Self::receive_balance(env, to.clone(), amount);\n\n            TokenUtils::new(env)", "            Self::receive_balance(env, to.clone(), amount);\n\n            TokenUtils::new(env)", 'C12.R3', base='features/token-f2')
M('C07', 'ft-transfer_batch-no-auth-c07', TOK, "        from.require_auth();\n\n        for (to, amount) in transfers.iter() {", "        for (to, amount) in transfers.iter() {", 'C07', base='features/token-f2')

# ---------------- refactor round 8 bases ----------------
ST = 'contracts/axelar-gateway/src/storage_types.rs'
M('C02', 'rf-gwmsg14-swapped-announce', GW, "                    .then_some(MessageApprovalValue::Executed)\n            },\n            event::execute_message,",
  "                    .then_some(MessageApprovalValue::Executed)\n            },\n            event::approve_message,", 'C02.R3', base='gwmsg-14')
M('C02', 'rf-gwmsg14-approve-announces-executed', GW, "            },\n                        event::approve_message,", "            },\n                        event::execute_message,", 'FLOOR', base='gwmsg-14')
M('C02', 'rf-gwmsg14-approve-any-status', GW, "(status == MessageApprovalValue::NotApproved)\n                                .then(", "(status != MessageApprovalValue::Executed)\n                                .then(", 'C02.R2', base='gwmsg-14')
M('C02', 'rf-gwmsg14-validate-any-approved', GW, "(status == MessageApprovalValue::Approved(message.hash(&env)))\n                    .then_some(", "(status != MessageApprovalValue::NotApproved)\n                    .then_some(", 'C02.R3', base='gwmsg-14')
M('C02', 'rf-gwmsg14-announce-before-set', GW, "                announce(env, message);\n\n                true", "                true", 'C02', base='gwmsg-14')
M('C02', 'rf-gwmsg15-approval-of-ignores-hash', ST, ".is_some_and(|approved_hash| approved_hash == message_hash)", ".is_some()", 'C02', base='gwmsg-15')
M('C02', 'rf-gwmsg15-not-approved-includes-approved', ST, "matches!(self, Self::NotApproved)", "!matches!(self, Self::Executed)", 'C02.R2', base='gwmsg-15')
M('C02', 'rf-gwmsg15-keyed-id-only', GW, "            source_chain: message.source_chain.clone(),\n            message_id: message.message_id.clone(),\n        };\n\n        (key, message)",
  "            source_chain: message.message_id.clone(),\n            message_id: message.message_id.clone(),\n        };\n\n        (key, message)", 'C02.R2', base='gwmsg-15')
M('C02', 'rf-gwmsg15-approved-hash-of-executed', ST, "            Self::Approved(hash) => Some(hash),\n            Self::NotApproved | Self::Executed => None,", "            Self::Approved(hash) => Some(hash),\n            Self::NotApproved | Self::Executed => None,", equiv=True, base='gwmsg-15')
M('C02', 'rf-gwmsg15-early-return-inverted', GW, "        if !approval.is_approval_of(&Self::message_hash(&env, &message)) {\n            return false;\n        }", "        if approval.is_executed() {\n            return false;\n        }", 'C02.R3', base='gwmsg-15')
M('C02', 'rf-gwmsg15-event-macro-wrong-topic', 'contracts/axelar-gateway/src/event.rs', 'publish!(env, "message_executed", (message), ());', 'publish!(env, "message_approved", (message), ());', 'C02.R3', base='gwmsg-15')
M('C03', 'rf-gwauth14-order-nonstrict', AUTH, "ensure!(previous_signer < signer, ContractError::InvalidSigners);", "ensure!(previous_signer <= signer, ContractError::InvalidSigners);", 'C03.R1', base='gwauth-14')
M('C03', 'rf-gwauth14-no-weight-check', AUTH, "            ensure!(weight != 0, ContractError::InvalidWeight);\n", "", 'C03.R1', base='gwauth-14')
M('C03', 'rf-gwauth14-prev-is-always-zero', AUTH, "iter::once(lowest_key).chain(signers.iter().map(|previous| previous.signer));", "iter::once(lowest_key.clone()).chain(signers.iter().map(move |_| lowest_key.clone()));", 'C03.R1', base='gwauth-14')
M('C03', 'rf-gwauth14-wrapping-total', AUTH, "            total_weight\n                .checked_add(weight)\n                .ok_or(ContractError::WeightOverflow)", "            Ok(total_weight.wrapping_add(weight))", 'C03.R1', base='gwauth-14')
M('C01', 'rf-gwauth14-break-below-threshold', AUTH, "            if signed_weight >= proof.threshold {\n                ControlFlow::Break(())", "            if signed_weight > 0 {\n                ControlFlow::Break(())", 'C01', base='gwauth-14')
M('C01', 'rf-gwauth14-end-of-walk-accepts', AUTH, "        ControlFlow::Continue(_) => Err(ContractError::InvalidSignatures),", "        ControlFlow::Continue(_) => Ok(()),", 'C01', base='gwauth-14')
M('C01', 'rf-gwauth14-unsigned-counts', AUTH, "                return ControlFlow::Continue(signed_weight);", "                return ControlFlow::Continue(signed_weight + weight);", 'C01', base='gwauth-14')
M('C01', 'rf-gwauth14-no-verify', AUTH, "            env.crypto()\n                .ed25519_verify(&public_key, msg_hash.to_bytes().as_ref(), &signature);\n", "            let _ = &signature;\n", 'C01', base='gwauth-14')
M('C03', 'rf-gwauth13-min-key-nonzero-equiv', AUTH, "const MIN_SIGNER_KEY: [u8; 32] = [0; 32];", "const MIN_SIGNER_KEY: [u8; 32] = [0u8; 32];", equiv=True, base='gwauth-13')
M('C03', 'rf-gwauth13-order-nonstrict', AUTH, "            previous_signer < signer.signer,", "            previous_signer <= signer.signer,", 'C03.R1', base='gwauth-13')
M('C01', 'rf-gwauth15-buffer-parts-swapped', AUTH, "    msg[..HASH_LEN].copy_from_slice(&domain_separator.to_array());\n    msg[HASH_LEN..2 * HASH_LEN].copy_from_slice(&signers_hash.to_array());",
  "    msg[..HASH_LEN].copy_from_slice(&signers_hash.to_array());\n    msg[HASH_LEN..2 * HASH_LEN].copy_from_slice(&domain_separator.to_array());", 'C01.R3', base='gwauth-15')
M('C01', 'rf-gwauth15-buffer-data-hash-overwrites-set-hash', AUTH, "    msg[2 * HASH_LEN..].copy_from_slice(&data_hash.to_array());", "    msg[HASH_LEN..2 * HASH_LEN].copy_from_slice(&data_hash.to_array());", 'C01.R3', base='gwauth-15')
M('C01', 'rf-gwauth15-buffer-no-domain-separator', AUTH, "    msg[..HASH_LEN].copy_from_slice(&domain_separator.to_array());\n", "    let _ = &domain_separator;\n", 'C01.R3', base='gwauth-15')
M('C03', 'rf-gwauth15-duplicate-check-inverted', AUTH, "        registry.epoch_of(&new_signers_hash).is_none(),", "        registry.epoch_of(&new_signers_hash).is_some(),", 'C03', base='gwauth-15')
M('C09', 'rf-gwauth15-delay-check-inverted', AUTH, "    if enforce_rotation_delay && !clock.is_delay_elapsed() {", "    if enforce_rotation_delay && clock.is_delay_elapsed() {", 'C09', base='gwauth-15')
M('C09', 'rf-gwauth15-delay-strict', AUTH, "            self.current_timestamp - self.last_rotation_timestamp >= self.minimum_rotation_delay", "            self.current_timestamp - self.last_rotation_timestamp > self.minimum_rotation_delay", 'C09', base='gwauth-15')
M('C02', 'rf-gwauth15-replay-arm-swapped', GW, "                MessageApprovalValue::NotApproved => {\n                    env.storage().persistent().set(", "                MessageApprovalValue::NotApproved | MessageApprovalValue::Executed => {\n                    env.storage().persistent().set(", 'C02.R2', base='gwauth-15')
MUTANTS[-1]['also'] = [("                MessageApprovalValue::Approved(_) | MessageApprovalValue::Executed => {}", "                MessageApprovalValue::Approved(_) => {}")]
ALW = 'contracts/interchain-token/src/allowance.rs'
M('C12', 'rf-token13-spend-no-cover-check', ALW, "        if available < amount {\n            panic_with_error!(self.env, ContractError::InsufficientAllowance);\n        }\n", "", None, base='token-13')
M('C12', 'rf-token13-expired-keeps-amount', ALW, "            }) if expiration_ledger < self.env.ledger().sequence() => AllowanceValue {\n                amount: 0,", "            }) if expiration_ledger < self.env.ledger().sequence() => AllowanceValue {\n                amount: i128::MAX,", 'C12', base='token-13')
M('C12', 'rf-token13-spend-other-slot', TOK, "        AllowanceSlot::new(env, owner, spender).spend(amount);", "        AllowanceSlot::new(env, spender, owner).spend(amount);", 'C12', base='token-13')
M('C07', 'rf-token13-debit-no-auth', TOK, "    fn debit_on_behalf(env: &Env, spender: &Address, owner: &Address, amount: i128) {\n        spender.require_auth();", "    fn debit_on_behalf(env: &Env, spender: &Address, owner: &Address, amount: i128) {", 'C07', base='token-13')
M('C12', 'rf-token14-move-credits-sender', TOK, "        Self::spend_balance(env, from, amount);\n        Self::receive_balance(env, to, amount);\n    }", "        Self::spend_balance(env, from, amount);\n        Self::receive_balance(env, from, amount);\n    }", 'C12', base='token-14')
M('C12', 'rf-token14-move-no-debit', TOK, "        Self::spend_balance(env, from, amount);\n        Self::receive_balance(env, to, amount);\n    }", "        Self::receive_balance(env, to, amount);\n        let _ = from;\n    }", 'C12', base='token-14')
M('C12', 'rf-token14-spend-writes-balance', TOK, "        let remaining = balance - amount;\n", "        let remaining = balance;\n", 'C12', base='token-14')
M('C12', 'rf-token14-spend-no-cover-check', TOK, "        let (key, balance) = Self::load_balance(env, account);\n\n        assert_with_error!(env, balance >= amount, ContractError::InsufficientBalance);\n", "        let (key, balance) = Self::load_balance(env, account);\n", 'C12', base='token-14')
MEM = 'contracts/axelar-operators/src/membership.rs'
M('C17', 'rf-gasops14-membership-inverted', MEM, "        if is_stored {\n            Self::Member\n        } else {\n            Self::Outsider\n        }", "        if is_stored {\n            Self::Outsider\n        } else {\n            Self::Member\n        }", 'C17', base='gasops-14')
M('C17', 'rf-gasops14-require-member-passes-outsider', MEM, "            Self::Member => Ok(()),\n            Self::Outsider => Err(ContractError::NotAnOperator),", "            Self::Member | Self::Outsider => Ok(()),", 'C17', base='gasops-14')
M('C17', 'rf-gasops14-expel-admits', MEM, "        self.storage().instance().remove(&entry(account));", "        self.storage().instance().set(&entry(account), &true);", 'C17', base='gasops-14')
M('C15', 'rf-gasops14-ensure-not-at-inverted', 'contracts/upgrader/src/contract.rs', "        if self.version() == *version {\n            return Err(ContractError::SameVersion);", "        if self.version() != *version {\n            return Err(ContractError::SameVersion);", 'C15', base='gasops-14')
M('C15', 'rf-gasops14-no-post-check', 'contracts/upgrader/src/contract.rs', "        target.ensure_at(&new_version)", "        let _ = &new_version;\n        Ok(())", 'C15', base='gasops-14')

# ---------------- adaptor / consumer expansion (own equivalents + defects in them) ----------------
_VS_LOOP = "    for signer in weighted_signers.signers.iter() {"
M('C03', 'eq-validate_signers-enumerate', AUTH, _VS_LOOP, "    for (_index, signer) in weighted_signers.signers.iter().enumerate() {", equiv=True)
M('C03', 'eq-validate_signers-inspect-take_while', AUTH, _VS_LOOP, "    for signer in weighted_signers.signers.iter().inspect(|_| ()).take_while(|_| true) {", equiv=True)
M('C03', 'enumerate-skips-order-check-of-first', AUTH, "        ensure!(\n            previous_signer < signer.signer,\n            ContractError::InvalidSigners\n        );",
  "        ensure!(\n            index == 0 || previous_signer < signer.signer,\n            ContractError::InvalidSigners\n        );", 'C03.R1')
MUTANTS[-1]['also'] = [(_VS_LOOP, "    for (index, signer) in weighted_signers.signers.iter().enumerate() {")]
M('C03', 'take_while-stops-checking-early', AUTH, _VS_LOOP, "    for signer in weighted_signers.signers.iter().take_while(|s| s.weight != 0) {", 'C03.R1')
M('C01', 'eq-validate_signatures-find_map', AUTH,
  "    false\n}\n", "    false\n}\n\n#[allow(dead_code)]\nfn first_signed(proof: &Proof) -> Option<BytesN<64>> {\n    proof.signers.iter().find_map(|s| match s.signature {\n        ProofSignature::Signed(sig) => Some(sig),\n        ProofSignature::Unsigned => None,\n    })\n}\n", equiv=True)
M('C01', 'eq-validate_signatures-as-any', AUTH,
  "    for ProofSigner {\n        signer: WeightedSigner {\n            signer: public_key,\n            weight,\n        },\n        signature,\n    } in proof.signers.iter()\n    {\n        if let ProofSignature::Signed(signature) = signature {\n            env.crypto()\n                .ed25519_verify(&public_key, msg_hash.to_bytes().as_ref(), &signature);\n\n            total_weight = total_weight.checked_add(weight).unwrap();\n\n            if total_weight >= proof.threshold {\n                return true;\n            }\n        }\n    }\n\n    false\n}",
  "    proof\n        .signers\n        .iter()\n        .position(|ProofSigner { signer: WeightedSigner { signer: public_key, weight }, signature }| {\n            let ProofSignature::Signed(signature) = signature else {\n                return false;\n            };\n            env.crypto()\n                .ed25519_verify(&public_key, msg_hash.to_bytes().as_ref(), &signature);\n            total_weight = total_weight.checked_add(weight).unwrap();\n            total_weight >= proof.threshold\n        })\n        .is_some()\n}", equiv=True)
M('C01', 'position-counts-unsigned', AUTH,
  "    for ProofSigner {\n        signer: WeightedSigner {\n            signer: public_key,\n            weight,\n        },\n        signature,\n    } in proof.signers.iter()\n    {\n        if let ProofSignature::Signed(signature) = signature {\n            env.crypto()\n                .ed25519_verify(&public_key, msg_hash.to_bytes().as_ref(), &signature);\n\n            total_weight = total_weight.checked_add(weight).unwrap();\n\n            if total_weight >= proof.threshold {\n                return true;\n            }\n        }\n    }\n\n    false\n}",
  "    proof\n        .signers\n        .iter()\n        .position(|ProofSigner { signer: WeightedSigner { signer: public_key, weight }, signature }| {\n            if let ProofSignature::Signed(signature) = signature {\n                env.crypto()\n                    .ed25519_verify(&public_key, msg_hash.to_bytes().as_ref(), &signature);\n            }\n            total_weight = total_weight.checked_add(weight).unwrap();\n            total_weight >= proof.threshold\n        })\n        .is_some()\n}", 'C01')
M('C07', 'rf-example11-steps-without-auth', EX, "const SEND_STEPS: [SendStep; 3] = [authorize_caller, pay_gas, call_contract];", "const SEND_STEPS: [SendStep; 2] = [pay_gas, call_contract];", 'C07', base='example-11')
M('C16', 'rf-example11-steps-reordered-equiv', EX, "const SEND_STEPS: [SendStep; 3] = [authorize_caller, pay_gas, call_contract];", "const SEND_STEPS: [SendStep; 3] = [authorize_caller, pay_gas, call_contract,];", equiv=True, base='example-11')
M('C11', 'rf-tokenadmin10-owner-not-seeded', TOK, "        for initial_minter in [Some(owner), minter].into_iter().flatten() {", "        let _ = &owner;\n        for initial_minter in [minter].into_iter().flatten() {", 'C11.R4', base='tokenadmin-10')
M('C11', 'rf-tokenadmin10-minter-not-seeded', TOK, "        for initial_minter in [Some(owner), minter].into_iter().flatten() {", "        let _ = &minter;\n        for initial_minter in [Some(owner)].into_iter().flatten() {", 'C11', base='tokenadmin-10')

# ---------------- private helpers exported as entry points (seeded change C17-f showed the pattern) ----------------
_ITS_CTOR = "#[contractimpl]\nimpl InterchainTokenService {\n    pub fn __constructor("
M('C05', 'exported-helper-its-give', ITS, _ITS_CTOR, "#[contractimpl]\nimpl InterchainTokenService {\n    pub fn release(env: Env, token_id: BytesN<32>, recipient: Address, amount: i128) -> Result<(), ContractError> {\n        let config = Self::token_id_config_with_extended_ttl(&env, token_id)?;\n        token_handler::give_token(&env, &recipient, config, amount)\n    }\n\n    pub fn __constructor(", 'C05')
M('C11', 'exported-helper-its-set-config', ITS, _ITS_CTOR, "#[contractimpl]\nimpl InterchainTokenService {\n    pub fn bind(env: Env, token_id: BytesN<32>, token_address: Address) {\n        Self::set_token_id_config(&env, token_id, TokenIdConfigValue { token_address, token_manager_type: TokenManagerType::LockUnlock });\n    }\n\n    pub fn __constructor(", 'C11')
M('C04', 'exported-helper-its-execute_message', ITS, _ITS_CTOR, "#[contractimpl]\nimpl InterchainTokenService {\n    pub fn deliver(env: Env, source_chain: String, message_id: String, source_address: String, payload: Bytes) -> Result<(), ContractError> {\n        Self::execute_message(&env, source_chain, message_id, source_address, payload)\n    }\n\n    pub fn __constructor(", 'C04')
_GW_CTOR = "#[contractimpl]\nimpl AxelarGateway {\n    /// Initialize the gateway\n    pub fn __constructor("
M('C03', 'exported-helper-gateway-install', GW, _GW_CTOR, "#[contractimpl]\nimpl AxelarGateway {\n    pub fn install(env: Env, signers: WeightedSigners) -> Result<(), ContractError> {\n        auth::rotate_signers(&env, &signers, false)\n    }\n\n    /// Initialize the gateway\n    pub fn __constructor(", None)
_TOK_CTOR = "#[contractimpl]\nimpl InterchainToken {\n    pub fn __constructor("
M('C12', 'exported-helper-token-credit', TOK, _TOK_CTOR, "#[contractimpl]\nimpl InterchainToken {\n    pub fn credit(env: Env, to: Address, amount: i128) {\n        Self::receive_balance(&env, to, amount);\n    }\n\n    pub fn __constructor(", 'C12')
M('C12', 'exported-helper-token-write-allowance', TOK, _TOK_CTOR, "#[contractimpl]\nimpl InterchainToken {\n    pub fn grant(env: Env, from: Address, spender: Address, amount: i128, expiration_ledger: u32) {\n        Self::write_allowance(&env, from, spender, amount, expiration_ledger);\n    }\n\n    pub fn __constructor(", 'C12')
M('C17', 'ft-execute_batch-no-membership', OPS, "        operator.require_auth();\n\n        Self::ensure_is_operator(&env, &operator)?;\n\n        let mut results", "        operator.require_auth();\n\n        let mut results", 'C17.R1', base='features/gasops-f2')
MUTANTS[-1]['also'] = [("            Self::ensure_is_operator(&env, &operator)?;\n\n            let res: Val", "            let res: Val")]
M('C17', 'ft-execute_batch-no-auth', OPS, "        operator.require_auth();\n\n        Self::ensure_is_operator(&env, &operator)?;\n\n        let mut results", "        Self::ensure_is_operator(&env, &operator)?;\n\n        let mut results", 'C17.R1', base='features/gasops-f2')

# ---------------- effects hidden behind library code that calls back into workspace trait impls ----------------
M('C17', 'hidden-effect-in-handwritten-iterator', OPS, "        let res: Val = env.invoke_contract(&contract, &func, args);\n\n        extend_instance_ttl(&env);\n\n        Ok(res)\n    }\n}\n",
  "        let res: Val = env.invoke_contract(&contract, &func, args);\n\n        extend_instance_ttl(&env);\n\n        let _ = Grants { env: &env, who: Some(contract.clone()) }.count();\n\n        Ok(res)\n    }\n}\n\nstruct Grants<'a> {\n    env: &'a Env,\n    who: Option<Address>,\n}\n\nimpl Iterator for Grants<'_> {\n    type Item = ();\n\n    fn next(&mut self) -> Option<()> {\n        let who = self.who.take()?;\n        self.env.storage().instance().set(&DataKey::Operators(who), &true);\n        Some(())\n    }\n}\n", 'C17')
M('C17', 'hidden-effect-in-drop-impl', OPS, "        let res: Val = env.invoke_contract(&contract, &func, args);\n\n        extend_instance_ttl(&env);\n\n        Ok(res)\n    }\n}\n",
  "        let res: Val = env.invoke_contract(&contract, &func, args);\n\n        extend_instance_ttl(&env);\n\n        let _guard = Grant { env: &env, who: contract.clone() };\n\n        Ok(res)\n    }\n}\n\nstruct Grant<'a> {\n    env: &'a Env,\n    who: Address,\n}\n\nimpl Drop for Grant<'_> {\n    fn drop(&mut self) {\n        self.env.storage().instance().set(&DataKey::Operators(self.who.clone()), &true);\n    }\n}\n", 'C17')
M('C17', 'hidden-effect-in-manual-partialeq', OPS, "        let res: Val = env.invoke_contract(&contract, &func, args);\n\n        extend_instance_ttl(&env);\n\n        Ok(res)\n    }\n}\n",
  "        let res: Val = env.invoke_contract(&contract, &func, args);\n\n        extend_instance_ttl(&env);\n\n        let probe = Probe { env: &env, who: contract.clone() };\n        let _ = probe == probe;\n\n        Ok(res)\n    }\n}\n\nstruct Probe<'a> {\n    env: &'a Env,\n    who: Address,\n}\n\nimpl PartialEq for Probe<'_> {\n    fn eq(&self, other: &Self) -> bool {\n        self.env.storage().instance().set(&DataKey::Operators(other.who.clone()), &true);\n        true\n    }\n}\n", 'C17')
M('C02', 'ft-validate_with_payload-no-auth', GW, "        payload: Bytes,\n    ) -> bool {\n        caller.require_auth();\n\n        let payload_hash = env.crypto().keccak256(&payload).into();", "        payload: Bytes,\n    ) -> bool {\n        let payload_hash = env.crypto().keccak256(&payload).into();", 'C02.R1', base='features/gwmsg-f5')
M('C07', 'ft-validate_with_payload-no-auth-c07', GW, "        payload: Bytes,\n    ) -> bool {\n        caller.require_auth();\n\n        let payload_hash = env.crypto().keccak256(&payload).into();", "        payload: Bytes,\n    ) -> bool {\n        let payload_hash = env.crypto().keccak256(&payload).into();", 'C07', base='features/gwmsg-f5')
M('C17', 'ft-add_operators-no-owner', OPS, "    pub fn add_operators(env: Env, accounts: Vec<Address>) -> Result<(), ContractError> {\n        Self::owner(&env).require_auth();\n", "    pub fn add_operators(env: Env, accounts: Vec<Address>) -> Result<(), ContractError> {\n", 'C17.R3', base='features/gasops-f5')
M('C10', 'rf-abi17-high-half-partially-checked', ABI, "    if high_half.iter().any(|&byte| byte != 0) {", "    if high_half.iter().take(8).any(|&byte| byte != 0) {", 'C10', base='abi-17')
M('C10', 'rf-abi17-negative-guard-dropped', ABI, "        amount if amount < 0 => Err(ContractError::InvalidAmount),\n", "", 'C10', base='abi-17')
M('C10', 'rf-abi17-low-half-is-high-half', ABI, "    low_bytes.copy_from_slice(low_half);", "    low_bytes.copy_from_slice(high_half);", 'C10', base='abi-17')
M('C03', 'ft-rotate_at_epoch-bypasses-entry', GW, "        Self::rotate_signers(env.clone(), signers, proof, bypass_rotation_delay)?;\n\n        Ok(auth::epoch(&env))", "        let _ = (&proof, bypass_rotation_delay);\n        auth::rotate_signers(&env, &signers, false)?;\n\n        Ok(auth::epoch(&env))", 'C03', base='features/gwrotate-f5')

# ---------------- rules added after the "seed disguised as a refactoring" round ----------------
M('C09', 'bypass-still-enforces-delay', GW, "        auth::rotate_signers(&env, &signers, !bypass_rotation_delay)?;", "        auth::rotate_signers(&env, &signers, true)?;", 'C09.R3')
M('C04', 'ttl-extension-of-untrusted-key', ITS, "        extend_persistent_ttl(env, &DataKey::TrustedChain(source_chain));\n        extend_instance_ttl(env);", "        extend_persistent_ttl(env, &DataKey::TrustedChain(message_id));\n        extend_instance_ttl(env);", 'C04.R5')
M('C05', 'ttl-extension-of-untrusted-key-c05', ITS, "        extend_persistent_ttl(env, &DataKey::TrustedChain(source_chain));\n        extend_instance_ttl(env);", "        extend_persistent_ttl(env, &DataKey::TrustedChain(message_id));\n        extend_instance_ttl(env);", 'C05.R6')

# ---------------- seeded round 12: "currently trusted" is part of the outbound properties too ----------------
MUTANTS.append(dict(next(m for m in MUTANTS if m['id'] == 'remove_trusted_chain-noop'), prop='C18', id='remove_trusted_chain-noop-c18', expect='C18.R7'))
MUTANTS.append(dict(next(m for m in MUTANTS if m['id'] == 'remove_trusted_chain-noop'), prop='C05', id='remove_trusted_chain-noop-c05', expect='C05.R7'))

# ---------------- seeded round 13: refusal clause of deploy_interchain_token ----------------
M('C11', 'self-minter-refused-for-every-supply', ITS, '        let initial_minter = if initial_supply > 0 {', '        ensure!(\n            minter != Some(env.current_contract_address()),\n            ContractError::InvalidMinter\n        );\n\n        let initial_minter = if initial_supply > 0 {', 'C11.R6')
