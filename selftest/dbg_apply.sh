#!/bin/sh
# dbg_apply.sh <patch> : (re)create /var/tmp/axl-dbg/repo = /repo + patch ; then: VERIF_REPO=/var/tmp/axl-dbg/repo VERIF_EVIDENCE_DIR=/var/tmp/axl-dbg/ev ./check CXX
P=""; [ -n "$1" ] && P="$(realpath "$1")"
rm -rf /var/tmp/axl-dbg; mkdir -p /var/tmp/axl-dbg/ev
rsync -a --exclude /target --exclude /.git --exclude test_snapshots /repo/ /var/tmp/axl-dbg/repo/
[ -n "$P" ] && (cd /var/tmp/axl-dbg/repo && patch -p1 -s -i "$P" </dev/null)
echo ready
