#!/usr/bin/env python3
"""Checker self-validation on source mutants: apply one small edit to /repo, re-run the property's
check (quick tier), require a VIOLATION naming the expected rule, revert.  Mutants are only compiled
(cargo check through the fact extractor), never run.

usage: run_mutants.py [--prop C06] [--id name] [--match substring] [--list]
"""
import json
import os
import subprocess
import sys

HERE = os.path.dirname(os.path.abspath(__file__))
VERIF = os.path.dirname(HERE)
REPO = '/repo'
sys.path.insert(0, HERE)
from mutants import MUTANTS  # noqa


SCRATCH = None


def scratch():
    """a private copy of /repo (never the repository itself) in which mutants are applied"""
    global SCRATCH
    if SCRATCH is None:
        import tempfile
        SCRATCH = tempfile.mkdtemp(prefix='axl-mut-', dir='/var/tmp')
        subprocess.check_call(['rsync', '-a', '--exclude', '/target', '--exclude', '/.git', '--exclude', 'test_snapshots',
                               REPO + '/', SCRATCH + '/repo/'])
        os.makedirs(SCRATCH + '/ev')
    return SCRATCH


def run(m):
    sc = scratch()
    base = m.get('base')
    if base:
        bp = os.path.join(HERE, base + '.diff') if '/' in base else os.path.join(HERE, 'refactors', base + '.diff')
        subprocess.check_call(['patch', '-p1', '-s', '-i', bp], cwd=os.path.join(sc, 'repo'), stdin=subprocess.DEVNULL)
    try:
        return run1(m, sc)
    finally:
        if base:
            subprocess.check_call(['patch', '-R', '-p1', '-s', '-i', bp], cwd=os.path.join(sc, 'repo'), stdin=subprocess.DEVNULL)


def run1(m, sc):
    path = os.path.join(sc, 'repo', m['file'])
    src = open(path).read()
    n = src.count(m['find'])
    if n != 1:
        return 'SKIP(find matches %d times)' % n, ''
    try:
        new = src.replace(m['find'], m['replace'])
        for f2, r2 in m.get('also') or []:
            if new.count(f2) != 1:
                return 'SKIP(also-pattern matches %d times)' % new.count(f2), ''
            new = new.replace(f2, r2)
        open(path, 'w').write(new)
        env = dict(os.environ, VERIF_REPO=os.path.join(sc, 'repo'), VERIF_EVIDENCE_DIR=os.path.join(sc, 'ev'), VERIF_TIER='quick')
        r = subprocess.run([os.path.join(VERIF, 'check'), m['prop'], '--tier', 'quick'], cwd=VERIF, stdout=subprocess.PIPE,
                           stderr=subprocess.STDOUT, text=True, env=env)
        out = r.stdout
    finally:
        open(path, 'w').write(src)
    if r.returncode == 2:
        return 'INFRA', out
    rules = [l.split('rule=')[1].split()[0] for l in out.splitlines() if l.strip().startswith('rule=')]
    if r.returncode == 1:
        exp = m.get('expect')
        if exp and not any(x.startswith(exp) for x in rules):
            return 'CAUGHT-OTHER(%s)' % ','.join(sorted(set(rules))), out
        return 'CAUGHT(%s)' % ','.join(sorted(set(rules))), out
    return 'MISSED', out


def main():
    args = sys.argv[1:]
    prop = args[args.index('--prop') + 1] if '--prop' in args else None
    mid = args[args.index('--id') + 1] if '--id' in args else None
    sub = args[args.index('--match') + 1] if '--match' in args else None
    sel = [m for m in MUTANTS if (not prop or m['prop'] == prop) and (not mid or m['id'] == mid) and (not sub or sub in m['id'])]
    if '--list' in args:
        for m in sel:
            print(m['prop'], m['id'])
        return 0
    res = {}
    bad = 0
    for m in sel:
        st, out = run(m)
        res[m['id']] = st
        flag = '' if st.startswith('CAUGHT(') or (m.get('equiv') and st == 'MISSED') else '   <<<<<<'
        if m.get('equiv'):
            flag = '' if st == 'MISSED' else '   <<<<<< FALSE ALARM on behaviour-preserving edit'
        if flag:
            bad += 1
        print('%-4s %-44s %s%s' % (m['prop'], m['id'], st, flag))
        if '-v' in args and flag:
            print(out)
    if SCRATCH:
        import shutil
        shutil.rmtree(SCRATCH, ignore_errors=True)
    print('mutants: %d, problems: %d' % (len(sel), bad))
    return 1 if bad else 0


if __name__ == '__main__':
    sys.exit(main())
