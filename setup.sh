#!/bin/sh
# Offline setup: build the rustc_private fact extractor and warm the nightly dependency cache.
set -e
cd "$(dirname "$0")"
export CARGO_NET_OFFLINE=true
(cd driver && cargo +nightly build --release --offline)
python3 analysis/extract.py --force
