"""Rule kit: the query vocabulary shared by the rule modules (C01..C18)."""
import re
from norm import norm, core, subterms, contains, key_variant, const_value, const_int, is_param, variant_name, find
from model import effects, state_effects, auths, STATE_KINDS
from guards import guard_edges, negate, cond_true
from fmt import fmt


def entry_id(g):
    return '%s::%s' % (g.crate.name, g.entry)


def site(g, ctx, bb):
    at = g.where(ctx, bb) or '?'
    at = at.split('/repo/')[-1]
    fn = ctx.body.get('def', ctx.key).split('::')[-1]
    return '%s %s (in %s)' % (entry_id(g), at, fn)


def esite(g, e):
    return site(g, e.ctx, e.bb)


def witness(g, node, blocked_nodes=(), blocked_edges=()):
    p = g.path_to(node, blocked_nodes, blocked_edges)
    if p is None:
        return None
    out = []
    for cid, bb in p:
        ctx = g.ctxs[cid]
        t = ctx.body['blocks'][bb]['term']
        at = t.get('at')
        if not at:
            continue
        s = at.split('/repo/')[-1]
        if '/rustlib/' in s:
            continue
        if not out or out[-1] != s:
            out.append(s)
    return out


# ---------------------------------------------------------------------------------------------
# term predicates
# ---------------------------------------------------------------------------------------------

def is_sget(t, cls=None, variant=None):
    t = core(t)
    if not isinstance(t, tuple) or t[0] != 'sget':
        return False
    if cls is not None and t[1] != cls:
        return False
    if variant is not None and key_variant(t[2])[0] != variant:
        return False
    return True


def stored(variant, cls='instance'):
    return lambda t: is_sget(t, cls, variant)


def param(name):
    return lambda t: is_param(core(t), name)


def same(a, b):
    """term equality modulo storage-read sites"""
    return strip_sites(a) == strip_sites(b)


_ss_memo = {}


def strip_sites(t):
    if not isinstance(t, tuple) or not t:
        return t
    r = _ss_memo.get(t)
    if r is not None:
        return r
    if t[0] in ('sget', 'shas') and len(t) > 3:
        r = (t[0], t[1], strip_sites(t[2]))
    elif t[0] == 'call' and len(t) > 3:
        r = ('call', t[1], tuple(strip_sites(x) for x in t[2]))
    else:
        r = tuple(strip_sites(x) if isinstance(x, tuple) else x for x in t)
    _ss_memo[t] = r
    return r


def alts(t):
    """alternatives of a (possibly nested) phi"""
    if isinstance(t, tuple) and t[0] == 'phi':
        out = []
        for a in t[1]:
            out.extend(alts(a))
        return out
    return [t]


def fields_of(t):
    if isinstance(t, tuple) and t[0] == 'struct':
        return dict(t[2])
    return None


def tuple_items(t):
    if isinstance(t, tuple) and t[0] == 'tuple':
        return list(t[1])
    return None


# ---------------------------------------------------------------------------------------------
# fact selection
# ---------------------------------------------------------------------------------------------

def auth_nodes(g, pred):
    """require_auth sites whose subject satisfies pred. require_auth_for_args is NOT accepted as establishing
    authorisation of this call: it binds an argument list chosen by the contract, not the actual invocation."""
    return [e.node for e in auths(g) if pred(e.subject) and not e.for_args]


def guard_sel(g, pred):
    """edges whose canonical condition satisfies pred"""
    return [x for x in guard_edges(g) if pred(x.cond)]


def edges(gs):
    return [x.edge for x in gs]


def cmp_is(c, op, lp, rp):
    return c[0] == 'cmp' and c[1] == op and lp(c[2]) and rp(c[3])


def mg(g, nodes, fact_nodes=(), fact_edges=()):
    """must-guard: (ok, first offending node, witness path)"""
    ok, bad = g.must_guard(nodes, fact_nodes, fact_edges)
    if ok:
        return True, None, None
    return False, bad[0], witness(g, bad[0], fact_nodes, fact_edges)


def mf(g, nodes, fact_nodes=(), fact_edges=()):
    ok, bad = g.must_follow(nodes, fact_nodes, fact_edges)
    return ok, (bad[0] if bad else None)


def succ_reachable(g, from_nodes, blocked_nodes=()):
    """nodes reachable after leaving any of from_nodes"""
    starts = []
    for n in from_nodes:
        for s in g.node_states.get(n, []):
            starts.extend(d for d, _ in g.succ[s])
    return g.nodes_of(g.reach(starts, blocked_nodes)) if starts else set()


def precedes_always(g, first_nodes, then_node):
    """then_node is reachable only through one of first_nodes"""
    ok, _ = g.must_guard([then_node], first_nodes)
    return ok


def on_ok_path(g, node):
    """node lies on some path to a success exit"""
    oks = set(g.ok_exit_sids())
    for s in g.node_states.get(node, []):
        if g.reach([s]) & oks:
            return True
    return False


def unguarded_ttl_extensions(g):
    """`extend_ttl(K)` on a persistent / temporary entry TRAPS when the entry does not exist: every such call must lie behind evidence
    that K exists - a presence test or successful read of the same key, or a write of it earlier on the path.  Returns the offending
    (ctx, bb, class, key) list."""
    out = []
    for ctx, bb, t in g.call_nodes():
        m = re.search(r'storage::(Persistent|Temporary)::extend_ttl', t['callee'])
        if not m:
            continue
        a = [norm(x) for x in g.arg_terms(ctx, bb)]
        if len(a) < 2:
            continue
        cls, key = m.group(1).lower(), core(a[1])
        pres = guard_sel(g, lambda c_: c_[0] == 'present' and isinstance(c_[1], tuple) and c_[1][0] in ('skey', 'sget') and c_[1][1] == cls
                         and same(core(c_[1][2]), key))
        ws = [e.node for e in effects(g) if e.kind == 'sw' and e.cls == cls and same(core(e.key), key)]
        ok, _, _ = mg(g, [(ctx.id, bb)], ws, edges(pres))
        if not ok:
            out.append((ctx, bb, cls, key))
    return out


def check_ttl_extensions(P, rep, rule, cn, entries, floor):
    """no entry of `entries` can trap in a TTL extension of an entry that may not exist (a wrong key there makes every call fail)"""
    n = 0
    for en in entries:
        if en not in P.crates[cn].entries:
            continue
        g = P.graph(cn, en)
        n += sum(1 for _c, _b, t_ in g.call_nodes() if re.search(r'storage::(Persistent|Temporary)::extend_ttl', t_['callee']))
        for ctx, bb, cls, key in unguarded_ttl_extensions(g):
            rep.bad(rule, '%s:ttl-extension-of-possibly-missing-entry' % en, 'extend_ttl of a %s entry lies behind a presence test / read / write of the same key '
                    '(it traps on a missing entry)' % cls, site(g, ctx, bb), fmt(key)[:200])
    rep.floor('%s TTL extension sites (%s)' % (cn, ','.join(entries)[:60]), n, floor)


def stale_reads(g, variant):
    """read-modify-write freshness: pairs (write w, intervening write w2, read site r) such that the value stored by w
    derives from a read r of a key of `variant` and another write w2 to a key of the same variant (a possibly aliasing
    key) happens on a path between r and w — w would then store a value computed from a stale read."""
    ws = [e for e in effects(g) if e.kind in ('sw', 'supd', 'sr') and key_variant(e.key)[0] == variant]
    out = []
    for w in ws:
        if w.kind != 'sw':
            continue
        reads = set()
        for x in subterms(w.val):
            if x[0] == 'sget' and key_variant(x[2])[0] == variant and len(x) > 3 and x[3] is not None:
                reads.add(tuple(x[3]))
        for r in reads:
            after_r = succ_reachable(g, [r])
            for w2 in ws:
                if w2.node not in after_r:
                    continue
                # (w2 may be w itself: a write in a loop whose read was taken once before the loop stores a value computed from
                # the state before its own previous iteration)
                # ... and w is reached from w2 WITHOUT the read being executed again (in a loop the next iteration re-reads: fresh)
                if w.node in succ_reachable(g, [w2.node], [r]):
                    out.append((w, w2, r))
    return out


def rejecting_edges(g):
    """primary guard edges after which no success exit is reachable although the opposite edge(s) of the same branch can
    still succeed: the input-dependent reasons for which the entry point refuses a call.  Propagation edges
    (ok/err/Continue/Break, constants, loop plumbing on tracked tags) are not primary."""
    oks = set(g.ok_exit_sids())
    out = []
    by_node = {}
    for gd in guard_edges(g):
        by_node.setdefault((gd.ctx.id, gd.bb), []).append(gd)
    for node, gds in by_node.items():
        if len(gds) < 2:
            continue
        alive = {}
        for gd in gds:
            alive[gd.label] = bool(g.states_after_edges([gd.edge]) & oks)
        if not any(alive.values()) or all(alive.values()):
            continue
        for gd in gds:
            if alive[gd.label]:
                continue
            if gd.cond[0] in ('is', 'isnot', 'isnot_any') and len(gd.cond) > 2 and isinstance(gd.cond[2], tuple) \
                    and not all(isinstance(a, tuple) and a and a[0] in ('variant', 'never') for a in alts(gd.cond[2])):
                # a dispatch on the variant of an INPUT-derived value (`match element.signature { Unsigned => stop }`) is a reason of its
                # own; only dispatches on values the code built itself (Continue/Break, a private "which path" enum) are plumbing
                tm = gd.ctx.body['blocks'][gd.bb]['term']
                if gd.label == 'otherwise' and tm.get('t') == 'switch' and isinstance(tm.get('otherwise'), int) \
                        and gd.ctx.body['blocks'][tm['otherwise']]['term']['t'] == 'unreachable':
                    continue        # the compiler's arm for "none of the variants": cannot be taken
                out.append(gd)
                continue
            if gd.cond[0] in ('ok', 'err', 'is', 'isnot', 'isnot_any', 'discr_eq', 'const', 'int_not_in'):
                continue
            if gd.cond[0] in ('true', 'false') and isinstance(gd.cond[1], tuple) and gd.cond[1][0] == 'phi':
                continue        # && / || plumbing temporaries
            if gd.cond[0] in ('present', 'absent') and isinstance(gd.cond[1], tuple) and gd.cond[1][0] in ('phi', 'variant') \
                    and all(isinstance(a, tuple) and a[0] == 'variant' for a in alts(gd.cond[1])):
                continue        # an Option built in place from an earlier decision (`cond.then_some(v).ok_or(e)`): propagation
            out.append(gd)
    return out


def include_rules(P, rep, rule, modname, pred, what, floor):
    """evaluate (part of) another property's rule module as part of this property's verdict: used where this property's
    statement depends on a clause that lives in another contract (e.g. 'charges exactly the stated gas payment')."""
    import importlib
    from report import Report
    mod = importlib.import_module('rules.' + modname)
    sub = Report(modname.upper(), rep.tier)
    mod.check(P, sub)
    n = 0
    for o in sub.obligations:
        if not pred(o):
            continue
        n += 1
        if o['ok']:
            rep.ok(rule, '%s: %s' % (what, o['what']), o.get('site'))
        else:
            rep.bad(rule, '%s:%s' % (modname, o['key']), '%s — dependency broken: %s' % (what, o['what']), o.get('site'), o.get('detail'), o.get('witness'))
    rep.floor('%s obligations (%s)' % (what, modname), n, floor)


def require_overflow_checks(P, rep, rule):
    """plain + / - in the contracts are relied on to trap: [profile.release] overflow-checks must stay true"""
    prof = getattr(P, 'info', {}).get('release_profile') or {}
    rep.check(bool(prof.get('overflow_checks')), rule, 'release-profile:overflow-checks',
              '[profile.release] overflow-checks = true in /repo/Cargo.toml (the arithmetic the rules accept as "checked" only traps with it)',
              'Cargo.toml', 'overflow-checks = %s' % prof.get('raw'))


GATEWAY_KEYS = ('Epoch', 'SignersHashByEpoch', 'EpochBySignersHash', 'LastRotationTimestamp', 'PreviousSignerRetention', 'DomainSeparator',
                'MinimumRotationDelay', 'MessageApproval', 'Interfaces_Owner', 'Interfaces_Operator', 'Interfaces_Migrating')


def is_bookkeeping(e, known_keys):
    """a storage write under a key that none of this contract's rules speaks about (a counter, a statistic, a label added later): it
    cannot change what a property constrains; the keys the rules DO speak about stay subject to the who-may-write tables"""
    return e.kind in ('sw', 'supd') and key_variant(e.key)[0] is not None and key_variant(e.key)[0] not in known_keys


def is_zero_bytes(a):
    """a byte array of zeroes, however it is written: `[0; N]`, a named constant holding it, an array literal of zeroes"""
    a = core(a)
    if a[0] == 'repeat':
        return const_int(a[1]) == 0
    if a[0] == 'const':
        return re.match(r'^\*?b"(\\x00)+"$', a[1]) is not None
    if a[0] == 'array':
        return bool(a[1]) and all(const_int(x) == 0 for x in a[1])
    return False


def decided_by(g, guard_sets, residual=None):
    """the entry returns statically true/false on every exit, `true` only through every one of the guard sets (their conjunction) and
    `false` only through another edge of one of those tests (the query result IS the tested condition, whatever the spelling: ==,
    matches!, match with a guard, if, an intermediate enum).  With `residual`, an exit may also return a computed boolean: it must lie
    behind every guard set and the value returned on those paths must be a condition residual() accepts (the last conjunct is
    returned instead of branched on: `stored.approved_hash().is_some_and(|h| h == expected)`)"""
    if guard_sets and not isinstance(guard_sets[0], list):
        guard_sets = [guard_sets]
    trues = set(g.exit_sids(lambda v: v == ('b', True)))
    falses = set(g.exit_sids(lambda v: v == ('b', False)))
    unknown = set(g.exit_sids(lambda v: v not in (('b', True), ('b', False))))
    if not guard_sets or not all(guard_sets) or not falses:
        return False
    if unknown:
        if residual is None or trues:
            return False
        for s_ in unknown:
            if not residual(cond_true(norm(g.exit_term(s_)))):
                return False
    elif not trues or residual is not None:
        return False          # (with `residual`, the last conjunct must really be what is returned on the accepting paths)
    comp = []
    for gs in guard_sets:
        te = set(edges(gs))
        if g.reach(None, (), list(te)) & (trues | unknown):
            return False
        nodes = set((cid, bb) for cid, bb, _ in te)
        comp += [gd.edge for gd in guard_edges(g) if (gd.ctx.id, gd.bb) in nodes and gd.edge not in te]
    return not (g.reach(None, (), comp) & falses)


def presence_query(g, storage, variant, arg):
    """the boolean entry returns exactly `storage has Variant(arg)`: the `has` result itself, or true/false decided by that test"""
    root = g.ctxs[0]
    vals = []
    for bi, b in enumerate(root.body['blocks']):
        if not b['cleanup'] and b['term']['t'] == 'return' and (0, bi) in g.node_states:
            vals.append(norm(g.term_local(root, bi, len(b['st']), 0)))
    if vals and all(v[0] == 'shas' and v[1] == storage and key_variant(v[2])[0] == variant and core(key_variant(v[2])[1][0]) == arg for v in vals):
        return True
    pres = guard_sel(g, lambda c_: c_[0] == 'present' and c_[1][0] == 'skey' and c_[1][1] == storage and key_variant(c_[1][2])[0] == variant
                     and core(key_variant(c_[1][2])[1][0]) == arg)
    return decided_by(g, pres)


def within_entry(g, e, names):
    """the effect happens inside a (walked) call of one of the named, audited entry FUNCTIONS of the same contract: a new entry point
    that is a wrapper around existing entry points' logic inherits what is proved of them for every argument (the obligations of those
    entries are checked on their own graphs; what the wrapper does OUTSIDE such calls is still subject to the who-may-do tables)"""
    keys = set(g.crate.entries[n] for n in names if n in g.crate.entries)
    c = e.ctx
    while c is not None:
        if c.key in keys and c.parent is not None:
            return True
        c = c.parent
    return False


def is_modulo_carry(t, expected):
    """t is `expected`, possibly joined with the loop-carried copy of itself (a field of a loop-state struct that the loop never
    updates reads as phi(initial value, same field of the carried struct))"""
    al = [core(a) for a in alts(t)]
    rest = [a for a in al if not is_mu(a)]
    return len(rest) == 1 and rest[0] == expected


def adt_of(c, name, pred=None):
    """ADT table entry of the workspace type called `name`, whatever module it lives in (pred picks among namesakes)"""
    cands = [a for n, a in sorted(c.adts.items()) if n == name or n.endswith('::' + name)]
    if pred is not None:
        cands = [a for a in cands if pred(a)]
    return cands[0] if cands else None


def is_mu(t):
    """a loop-carried value, possibly a component of a loop-carried tuple / Ok(..) accumulator (fold / try_fold)"""
    while isinstance(t, tuple) and t and t[0] in ('field', 'payload'):
        t = t[2] if t[0] == 'field' else t[3]
    return isinstance(t, tuple) and bool(t) and t[0] == 'mu'


def is_zero(t):
    """the integer 0, literally or as the numeric Default"""
    t = core(t)
    if const_int(t) == 0:
        return True
    return t[0] == 'call' and re.search(r'core::<[iu](8|16|32|64|128|size) as core::default::Default>::default$', t[1]) is not None


def storage_classes(P, rep, rule, crate, expected):
    """type-table rule: every write of, and every presence test on, the given storage-key variants uses the expected
    storage class (instance / persistent / temporary).  Durability is part of the behaviour: a status, registry entry or
    clock kept in temporary storage expires and silently resets."""
    n = 0
    for cn, en in P.all_entries():
        if cn != crate:
            continue
        g = P.graph(cn, en)
        for e in effects(g):
            if e.kind in ('sw', 'sr', 'supd'):
                v = key_variant(e.key)[0]
                if v in expected:
                    n += 1
                    rep.check(e.cls == expected[v], rule, '%s::%s:%s-class' % (cn, en, v), '%s is kept in %s storage' % (v, expected[v]), esite(g, e), e.cls)
        for gd in guard_edges(g):
            c = gd.cond
            if c[0] in ('present', 'absent') and isinstance(c[1], tuple) and c[1][0] == 'skey':
                v = key_variant(c[1][2])[0]
                if v in expected:
                    n += 1
                    rep.check(c[1][1] == expected[v], rule, '%s::%s:%s-read-class' % (cn, en, v), '%s is looked up in %s storage' % (v, expected[v]),
                              site(g, gd.ctx, gd.bb), c[1][1])
    return n
