import json,sys
def pl(p):
    s="_%d"%p['l']
    for e in p.get('p',[]):
        if e=='*': s="(*%s)"%s
        elif 'f' in e: s="%s.%s"%(s,e['n'] or e['f'])
        elif 'v' in e: s="(%s as %s)"%(s,e['n'] or e['v'])
        else: s="%s[%s]"%(s,e['o'])
    return s
def op(o):
    if o['k'] in('copy','move'): return ("move " if o['k']=='move' else "")+pl(o['pl'])
    if o['k']=='const':
        x=o['v']
        if 'promoted' in o: x="promoted[%d]"%o['promoted']
        if 'item' in o: x+=" <item %s>"%o['item']
        if 'fn' in o: x="fn "+o['fn']
        return "const(%s)"%x
    return str(o)
def rv(r):
    k=r['r']
    if k=='use': return op(r['o'])
    if k=='ref': return ("&mut " if r['mut'] else "&")+pl(r['pl'])
    if k=='bin': return "%s(%s, %s)"%(r['op'],op(r['a']),op(r['b']))
    if k=='un': return "%s(%s)"%(r['op'],op(r['a']))
    if k=='cast': return "cast<%s>(%s as %s)"%(r['kind'],op(r['a']),r['ty'])
    if k=='discr': return "discriminant(%s)"%pl(r['pl'])
    if k=='agg':
        if r['kind']=='adt': head="%s::%s{%s}"%(r['adt'],r['variant'],",".join(r['fields']))
        elif r['kind']=='closure': head="closure "+r['def']
        else: head=r['kind']
        return "%s(%s)"%(head,", ".join(op(o) for o in r['ops']))
    return str(r)
def show(inst):
    print("fn",inst['key'],"@",inst['at'])
    names={pl(v):k for k,v in inst['names'].items()}
    print("  names:",names)
    for i,b in enumerate(inst['blocks']):
        if b['cleanup']: continue
        print("  bb%d:"%i)
        for s in b['st']:
            if s['s']=='assign': print("    %s = %s"%(pl(s['pl']),rv(s['rv'])))
            elif s['s']=='dead': pass
            else: print("    setdiscr",pl(s['pl']),s['v'])
        t=b['term']
        if t['t']=='call':
            print("    %s = CALL%s %s(%s) -> bb%s   [%s]"%(pl(t['dest']),"[leaf]" if t['leaf'] else "",t['callee'],", ".join(op(a) for a in t['args']),t['to'],t['at']))
        elif t['t']=='switch': print("    switch %s %s else bb%d"%(op(t['d']),t['arms'],t['otherwise']))
        elif t['t']=='assert': print("    assert %s==%s -> bb%d (%s)"%(op(t['c']),t['exp'],t['to'],t['msg']))
        elif t['t'] in('goto','drop'): print("    %s -> bb%d"%(t['t'],t['to']))
        else: print("    ",t['t'])
    for j,p in enumerate(inst['promoted']):
        print("  promoted[%d]:"%j)
        for b in p['blocks']:
            for s in b['st']:
                if s['s']=='assign': print("    %s = %s"%(pl(s['pl']),rv(s['rv'])))
d=json.load(open(sys.argv[1]))
pat=sys.argv[2]
for inst in d['instances']:
    if pat in inst['key']: show(inst)
