"""C04 — ITS acts only on approved, well-formed hub messages from trusted chains."""
from rk import *
from rules.itslib import *
from rules.c16 import validation

EXPLAIN = ('ITS execute (params source_chain, message_id, source_address, payload): every effect other than the gateway '
           'consume itself is must-guarded by (R1) the TRUE result of AxelarGatewayMessagingClient.validate_message(self, '
           'source_chain, message_id, source_address, keccak256(payload)) addressed to the stored Gateway (the state-changing '
           'consume; client arity = gateway entry arity), and no entry other than execute acts on a decoded ReceiveFromHub payload; (R2) message type decoded from the payload == ReceiveFromHub, '
           'source_chain == the hub chain constant, a successful strict decode of ReceiveFromHub from the SAME payload, type words decoded strictly (validate = true) for the wrapper and the inner message, and '
           'TrustedChain(decoded origin chain) present; (R3) source_address == stored ItsHubAddress; (R4) token movements '
           'are must-guarded by TokenIdConfigKey(decoded token id) present and by successful decoding of the recipient, the '
           'token moved is the registered token of that id; (R5) no non-trapping (try_) cross-contract call and no dropped '
           'Result on the path; (R6) the decoding clauses of the codec rules (C10.R1-R3, R5-R7) are evaluated as part of this property.')
NOT_DECIDED = 'ABI decoder internals (T7); gateway-side exactly-once is C02.R3.'
ASSUME = ['T1', 'T2', 'T3', 'T5', 'T6', 'T7']


def check(P, rep):
    c = P.crates[CN]
    if 'execute' not in c.entries:
        rep.floor('ITS entry execute', 0, 1)
        return
    g = P.graph(CN, 'execute')
    sc, mid, sa, pl = g.P(1), g.P(2), g.P(3), g.P(4)
    vals, tr = validation(g)
    rep.floor('ITS execute gateway validate_message call', len(vals), 1)
    for v in vals:
        a = [core(x) for x in v.args]
        rep.check(a == [('self',), sc, mid, sa, ('keccak', pl)] and is_sget(v.target, 'instance', 'Gateway') and not v.try_, 'C04.R1', 'execute:validate-call',
                  'consume = validate_message(self, source_chain, message_id, source_address, keccak256(payload)) on the stored gateway',
                  esite(g, v), v.describe()[:300])
    if 'axelar_gateway' in P.crates and 'validate_message' in P.crates['axelar_gateway'].entries:
        gg = P.graph('axelar_gateway', 'validate_message')
        rep.check(all(len(v.args) == len(gg.abi_params()) for v in vals) and bool(vals), 'C04.R1', 'execute:client-arity',
                  'client stub arity equals the gateway entry\'s arity (%d)' % len(gg.abi_params()), entry_id(g))
    effs = [e for e in state_effects(g) if e not in vals]
    rep.floor('ITS execute effects', len(effs), 6)
    hub = hub_chain_const(P)
    rep.floor('hub chain constant (its_hub_chain_name)', int(hub is not None), 1)
    from_payload = lambda t: core(t) == pl
    strict_type = lambda t: find(t, lambda s_: s_[0] == 'call' and 'abi::MessageType as alloy_sol_types::SolValue>::abi_decode' in s_[1]
                                 and len(s_[2]) > 1 and const_value(core(s_[2][1])) == 'true') is not None
    is_type_guard = lambda c_: c_[0] == 'cmp' and c_[1] == 'eq' and any(
        variant_name(core(y)) == 'ReceiveFromHub' and strict_type(x)
        and contains(x, pl) for x, y in ((c_[2], c_[3]), (c_[3], c_[2])))
    facts = [
        ('R1', 'approved', 'a consumed, successful gateway validation', tr),
        ('R2', 'type', 'message type of the payload == ReceiveFromHub (explicit comparison or match dispatch)',
         guard_sel(g, lambda c_: is_type_guard(c_) or (c_[0] == 'is' and c_[1] == 'ReceiveFromHub' and contains(c_[2], pl) and strict_type(c_[2])
                   and find(c_[2], lambda s_: decode_call(s_) is not None) is None))),
        ('R2', 'hub-chain', 'source_chain == hub chain constant',
         guard_sel(g, lambda c_: c_[0] == 'cmp' and c_[1] == 'eq' and {strip_sites(core(c_[2])), strip_sites(core(c_[3]))} == {sc, strip_sites(hub)}) if hub else []),
        ('R2', 'decoded', 'strict decode of ReceiveFromHub from the same payload succeeded',
         guard_sel(g, lambda c_: c_[0] == 'ok' and (decode_call(c_[1], 'ReceiveFromHub') or (None, None, None))[1] is not None
                   and core(decode_call(c_[1], 'ReceiveFromHub')[1]) == pl and const_value(core(decode_call(c_[1], 'ReceiveFromHub')[2])) == 'true')),
        ('R2', 'trusted-origin', 'TrustedChain(decoded origin chain) present',
         trusted_guard(g, lambda ch: find_decode(ch, 'ReceiveFromHub', from_payload) is not None and
                       find(ch, lambda s: s[0] == 'field' and s[1] == 'source_chain') is not None)),
        ('R3', 'hub-address', 'source_address == stored ItsHubAddress',
         guard_sel(g, lambda c_: c_[0] == 'cmp' and c_[1] == 'eq' and any(core(x) == sa and is_sget(y, 'instance', 'ItsHubAddress')
                                                                          for x, y in ((c_[2], c_[3]), (c_[3], c_[2]))))),
    ]
    for r, tagn, desc, gs in facts:
        if r != 'R3':
            rep.floor('execute guard: ' + desc, len(gs), 1)
        for e in effs:
            ok, _, w = mg(g, [e.node], (), edges(gs)) if gs else (False, None, witness(g, e.node))
            if r == 'R3':
                # one finding for the whole entry, not one per effect
                continue
            rep.check(ok, 'C04.' + r, 'execute:%s:%s' % (effect_tag(e), tagn), '%s is must-guarded by: %s' % (effect_tag(e), desc), esite(g, e), None, w)
    # supported inner message: each arm's effects lie behind a STRICT decode of the inner type word == that arm's type
    inner = lambda name: guard_sel(g, lambda c_: c_[0] == 'is' and c_[1] == name and strict_type(c_[2]) and
                                   find_decode(c_[2], 'ReceiveFromHub', from_payload) is not None)
    arms = {'InterchainTransfer': [e for e in effs if e.kind == 'xcall' or (e.kind == 'pub' and effect_tag(e) == 'event:interchain_transfer_received')],
            'DeployInterchainToken': [e for e in effs if e.kind in ('deploy', 'sw') or (e.kind == 'pub' and effect_tag(e) == 'event:interchain_token_deployed')]}
    for name, es in arms.items():
        gs = inner(name)
        rep.floor('execute inner type dispatch == %s (strict)' % name, len(gs), 1)
        for e in es:
            ok, _, w = mg(g, [e.node], (), edges(gs)) if gs else (False, None, None)
            rep.check(ok, 'C04.R2', 'execute:%s:inner-type' % effect_tag(e), '%s is must-guarded by: strictly decoded inner message type == %s' % (effect_tag(e), name),
                      esite(g, e), None, w)
    # R3 as a single obligation over the entry
    gs = facts[-1][3]
    unguarded = [e for e in effs if not (gs and mg(g, [e.node], (), edges(gs))[0])]
    rep.check(not unguarded, 'C04.R3', 'execute:hub-address-never-compared',
              'every effect of execute is must-guarded by source_address == stored ItsHubAddress',
              entry_id(g), 'unguarded effects: ' + ', '.join(sorted(set(effect_tag(e) for e in unguarded))),
              witness(g, unguarded[0].node) if unguarded else None)
    # R4 transfer arm
    moves = [e for e in effs if e.kind == 'xcall' and e.client in ('TokenClient', 'StellarAssetClient')]
    rep.floor('execute token movements', len(moves), 2)
    for e in moves:
        cfg = config_of(e.target)
        okc = cfg is not None and cfg[0] == 'token_address' and find_decode(cfg[1], 'InterchainTransfer', lambda s: find_decode(s, 'ReceiveFromHub', from_payload) is not None) is not None
        rep.check(okc, 'C04.R4', 'execute:%s.%s:registered-token' % (e.client, e.method), 'the token moved is the registered token of the decoded token id',
                  esite(g, e), fmt(e.target)[:300])
        if cfg:
            reg = registered_guard(g, lambda i: same(i, cfg[1]))
            ok, _, w = mg(g, [e.node], (), edges(reg)) if reg else (False, None, None)
            rep.check(ok, 'C04.R4', 'execute:%s.%s:token-registered' % (e.client, e.method), 'movement must-guarded by TokenIdConfigKey(decoded id) present', esite(g, e), None, w)
        rcp = core(e.args[0] if e.method == 'mint' else e.args[1])
        okr = rcp[0] == 'call' and 'FromXdr>::from_xdr' in rcp[1] and find(rcp, lambda s: s[0] == 'field' and s[1] == 'destinationAddress') is not None
        rep.check(okr, 'C04.R4', 'execute:%s.%s:recipient' % (e.client, e.method), 'recipient is the decoded destination address (Address::from_xdr Ok)', esite(g, e), fmt(rcp)[:200])
    # deploy arm: an announced minter must decode to an address (an undecodable minter is refused, not dropped)
    deploys = [e for e in effs if e.kind == 'deploy']
    is_minter_bytes = lambda t: find(t, lambda s_: s_[0] == 'field' and s_[1] == 'minter' and decode_call(s_[2], 'DeployInterchainToken') is not None) is not None
    ok_minter = guard_sel(g, lambda c_: c_[0] == 'ok' and core(c_[1])[0] == 'call' and 'FromXdr>::from_xdr' in core(c_[1])[1] and is_minter_bytes(c_[1]))
    no_minter = guard_sel(g, lambda c_: c_[0] == 'absent' and is_minter_bytes(c_[1]) and
                          find(c_[1], lambda s_: s_[0] == 'call' and 'FromXdr>::from_xdr' in s_[1]) is None)
    rep.floor('execute deploy-arm minter decode guard', len(ok_minter), 1)
    for e in deploys:
        ok, _, w = mg(g, [e.node], (), edges(ok_minter) + edges(no_minter)) if ok_minter else (False, None, None)
        rep.check(ok, 'C04.R4', 'execute:deploy:minter-decodes', 'the remote deploy is must-guarded by: no minter announced OR the announced minter decodes to an address',
                  esite(g, e), None, w)
        args = tuple_items(core(e.args)) or []
        if len(args) == 4:
            somes = [a for a in alts(args[1]) if variant_name(a) == 'Some']
            rep.check(all(core(a[3][0])[0] == 'call' and 'FromXdr>::from_xdr' in core(a[3][0])[1] and is_minter_bytes(a[3][0]) for a in somes) and bool(somes), 'C04.R4',
                      'execute:deploy:minter-term', 'the constructor\'s minter is the address decoded from the announced minter bytes', esite(g, e), fmt(args[1])[:200])
    # who-may-act-on-a-delivery: only `execute` (behind the consumed gateway approval) turns a hub message into effects - a helper of the
    # delivery path exported as an entry point, or a second delivery entry without the approval, is reported here
    for cn_, en_ in P.all_entries():
        if cn_ != CN or en_ == 'execute':
            continue
        g2 = P.graph(cn_, en_)
        for e in state_effects(g2):
            if within_entry(g2, e, ['execute']):
                continue
            ts = [v for v in e.d.values() if isinstance(v, tuple)] + [a for v in e.d.values() if isinstance(v, list) for a in v if isinstance(a, tuple)]
            if any(find_decode(t_, 'ReceiveFromHub', lambda s_: True) is not None for t_ in ts):
                rep.bad('C04.R1', '%s:acts-on-delivery-outside-execute' % en_,
                        'a received hub message is acted on only by execute, behind the consumed gateway approval', esite(g2, e), e.describe()[:200])
    from rules.c16 import gateway_binding
    gateway_binding(P, rep, 'C04.R1')
    # "well-formed hub message": the codec clauses this statement relies on (strict decoding, tag/struct dispatch, field mapping, amount
    # range check, no-panic inventory) are evaluated as part of this property
    include_rules(P, rep, 'C04.R6', 'c10', lambda o: o['rule'] in ('C10.R1', 'C10.R2', 'C10.R3', 'C10.R5', 'C10.R6', 'C10.R7', 'FLOOR') and 'encode' not in (o.get('key') or o['what'])
                  # the WRAPPER-level dispatch is decided by C04.R2 itself (the early strict type check or the dispatch, whichever guards the arm)
                  and not re.search(r'sol struct (ReceiveFromHub|SendToHub) is decoded only behind the dispatch edge', o['what']),
                  'delivered payloads are decoded strictly and only well-formed messages (amount < 2^127, supported types, exact lengths) are acted on', 30)
    check_ttl_extensions(P, rep, 'C04.R5', CN, ['execute'], 2)
    storage_classes(P, rep, 'C04.R2', CN, {'TrustedChain': 'persistent', 'TokenIdConfigKey': 'persistent', 'Gateway': 'instance', 'ItsHubAddress': 'instance'})
    # "currently trusted origin chain": the trust set changes exactly as its two admin entries say and is_trusted_chain reports presence
    for en, kind in (('set_trusted_chain', 'sw'), ('remove_trusted_chain', 'sr')):
        if en not in c.entries:
            rep.floor('ITS entry ' + en, 0, 1)
            continue
        gt = P.graph(CN, en)
        es = [e for e in state_effects(gt) if e.kind == kind and key_variant(e.key)[0] == 'TrustedChain' and core(key_variant(e.key)[1][0]) == gt.P(1)]
        rep.check(bool(es) and gt.success_needs([e.node for e in es]), 'C04.R2', '%s:effective' % en,
                  '%s really %s TrustedChain(chain) before every success exit' % (en, 'sets' if kind == 'sw' else 'removes'), entry_id(gt))
    for cn_, en_ in P.all_entries():
        if cn_ != CN:
            continue
        ge = P.graph(cn_, en_)
        for e in state_effects(ge):
            if e.kind in ('sw', 'sr', 'supd') and key_variant(e.key)[0] == 'TrustedChain':
                # the trust set is the owner's: whichever entry changes it (the two single-chain entries, a batch variant added later), the
                # change is a plain set / remove of TrustedChain(chain) under require_auth of the STORED owner
                from rules.c06 import role_auth, OWNER
                nodes_, _stale = role_auth(ge, OWNER)
                okw = e.kind in ('sw', 'sr') and en_ != '__constructor' and mg(ge, [e.node], nodes_)[0]
                rep.check(okw, 'C04.R2', '%s:trusted-chain-writer' % en_,
                          'TrustedChain(_) is set / removed only under require_auth(stored owner)', esite(ge, e), e.describe()[:120])
    if 'is_trusted_chain' in c.entries:
        gq = P.graph(CN, 'is_trusted_chain')
        rts = ret_terms(gq)
        rep.check(presence_query(gq, 'persistent', 'TrustedChain', gq.P(1)),
                  'C04.R2', 'is_trusted_chain:presence', 'is_trusted_chain returns presence of TrustedChain(chain)', entry_id(gq))
    trys = [e for e in effects(g) if e.kind in ('xcall', 'invoke') and e.try_]
    rep.check(not trys, 'C04.R5', 'execute:no-try-calls', 'no non-trapping (try_) cross-contract call', entry_id(g), '; '.join(x.describe() for x in trys)[:200])
    rep.check(bool(tr) and g.success_needs((), edges(tr)), 'C04.R1', 'execute:success-needs-validation', 'every success exit lies behind the successful validation', entry_id(g))
