"""C15 — owner-only upgrades, one migration per upgrade, all-or-nothing Upgrader."""
from rk import *

EXPLAIN = ('For every contract exposing entry points upgrade and migrate (the derive macro\'s real expansion in each '
           'production contract; floor 5): (R1) the code swap is must-guarded by require_auth(stored owner) and '
           'must-followed by the set of the migration flag before any success exit; (R2) in migrate every effect '
           '(incl. the custom migration closure) is must-guarded by owner auth and by presence of the flag, every success '
           'exit is preceded by removal of the flag and by the `upgraded` event carrying version(); (R3) the flag is set '
           'only after a code swap and removed only in migrate; (R4) Upgrader.upgrade: the target\'s upgrade call is '
           'must-guarded by version() != new_version, must-followed by invoke(target,"migrate",data); every success exit is '
           'guarded by a version() == new_version check whose version() call happens after the migrate invoke; all four '
           'calls target the contract_address parameter with the wasm-hash / migration-data parameters and none is a '
           'non-trapping try_ variant.')
NOT_DECIDED = 'host rollback of a failed invocation tree (T1).'
ASSUME = ['T1', 'T2', 'T3', 'T6']
OWNER = 'Interfaces_Owner'
MIG = 'Interfaces_Migrating'


def flagkey(c, kind):
    return c[0] == kind and c[1][0] == 'skey' and c[1][1] == 'instance' and key_variant(c[1][2])[0] == MIG


def ret_terms(g):
    root = g.ctxs[0]
    out = []
    for bi, b in enumerate(root.body['blocks']):
        if not b['cleanup'] and b['term']['t'] == 'return' and (0, bi) in g.node_states:
            out.append(norm(g.term_local(root, bi, len(b['st']), 0)))
    return out


def check(P, rep):
    ups = [cn for cn, c in P.crates.items() if 'upgrade' in c.entries and 'migrate' in c.entries and cn != 'upgrader']
    rep.floor('upgradable contracts (entries upgrade+migrate)', len(ups), 5)
    for cn in ups:
        g = P.graph(cn, 'upgrade')
        own = auth_nodes(g, stored(OWNER))
        wasm = [e for e in state_effects(g) if e.kind == 'wasm']
        rep.floor('%s::upgrade code swap sites' % cn, len(wasm), 1)
        setflag = [e for e in state_effects(g) if e.kind == 'sw' and key_variant(e.key)[0] == MIG]
        for e in wasm:
            ok, _, w = mg(g, [e.node], own)
            rep.check(ok, 'C15.R1', '%s::upgrade:swap-owner' % cn, 'code swap must-guarded by require_auth(stored owner)', esite(g, e), None, w)
            ok, _ = mf(g, [e.node], [x.node for x in setflag])
            rep.check(ok and bool(setflag), 'C15.R1', '%s::upgrade:swap-opens-window' % cn,
                      'code swap is followed by setting the migration flag on every success path', esite(g, e))
            rep.check(core(e.wasm) == g.P(1), 'C15.R1', '%s::upgrade:hash-param' % cn, 'the installed code is the wasm-hash parameter', esite(g, e), fmt(e.wasm))
        rep.check(g.success_needs([e.node for e in wasm]), 'C15.R1', '%s::upgrade:success-swaps' % cn,
                  'every success exit of upgrade is preceded by the code swap', entry_id(g))
        # migrate
        g = P.graph(cn, 'migrate')
        own = auth_nodes(g, stored(OWNER))
        open_ = guard_sel(g, lambda c_: flagkey(c_, 'present'))
        rep.floor('%s::migrate window-open guard' % cn, len(open_), 1)
        effs = state_effects(g)
        rep.floor('%s::migrate effects' % cn, len(effs), 2)
        for e in effs:
            ok, _, w = mg(g, [e.node], own)
            rep.check(ok, 'C15.R2', '%s::migrate:%s:owner' % (cn, e.kind), 'migration effect must-guarded by owner auth: ' + e.describe()[:80], esite(g, e), None, w)
            ok, _, w = mg(g, [e.node], (), edges(open_))
            rep.check(ok, 'C15.R2', '%s::migrate:%s:window' % (cn, e.kind), 'migration effect must-guarded by the migration flag being present: ' + e.describe()[:80], esite(g, e), None, w)
        clr = [e for e in effs if e.kind == 'sr' and key_variant(e.key)[0] == MIG]
        rep.check(bool(clr) and g.success_needs([e.node for e in clr]), 'C15.R2', '%s::migrate:closes-window' % cn,
                  'every success exit of migrate is preceded by removal of the migration flag', entry_id(g))
        ver = ret_terms(P.graph(cn, 'version')) if 'version' in P.crates[cn].entries else []
        rep.floor('%s::version entry' % cn, len(ver), 1)
        evs = [e for e in effs if e.kind == 'pub' and (tuple_items(e.topics) or [None])[0] == ('sym', 'upgraded')]
        good = [e for e in evs if ver and any(same(core(x), v) for x in (tuple_items(e.data) or [e.data]) for v in ver)]
        rep.check(bool(good) and g.success_needs([e.node for e in good]), 'C15.R2', '%s::migrate:event' % cn,
                  'every success exit of migrate is preceded by the `upgraded` event carrying version()', entry_id(g),
                  '; '.join(e.describe() for e in evs)[:200])
    for cn_ in ups:
        storage_classes(P, rep, 'C15.R3', cn_, {'Interfaces_Migrating': 'instance', 'Interfaces_Owner': 'instance'})
    # R3 who-may-write the flag
    nset = nrem = 0
    for cn, en in P.all_entries():
        g = P.graph(cn, en)
        for e in state_effects(g):
            if e.kind in ('sw', 'sr', 'supd') and key_variant(e.key)[0] == MIG:
                if e.kind == 'sw':
                    nset += 1
                    wasm = [x.node for x in state_effects(g) if x.kind == 'wasm']
                    ok, _, w = mg(g, [e.node], wasm)
                    rep.check(ok and bool(wasm), 'C15.R3', '%s::%s:flag-set' % (cn, en),
                              'the migration flag is set only after a code swap', esite(g, e), None, w)
                else:
                    nrem += 1
                    rep.check(en == 'migrate', 'C15.R3', '%s::%s:flag-removed' % (cn, en),
                              'the migration flag is removed only in migrate', esite(g, e))
    rep.floor('migration flag setters', nset, 5)
    rep.floor('migration flag removers', nrem, 5)
    # R4 Upgrader
    c = P.crates.get('upgrader')
    if c is None or 'upgrade' not in c.entries:
        rep.floor('upgrader::upgrade entry', 0, 1)
        return
    g = P.graph('upgrader', 'upgrade')
    target, newver, wasmh, data = g.P(1), g.P(2), g.P(3), g.P(4)
    eff = effects(g)
    vers = [e for e in eff if e.kind == 'xcall' and e.method == 'version']
    upg = [e for e in eff if e.kind == 'xcall' and e.method == 'upgrade']
    migs = [e for e in eff if e.kind == 'invoke' and core(e.func) == ('sym', 'migrate')]
    rep.floor('upgrader version() calls', len(vers), 2)
    rep.floor('upgrader upgrade() calls', len(upg), 1)
    rep.floor('upgrader migrate invokes', len(migs), 1)
    for e in vers + upg:
        rep.check(core(e.target) == target and not e.try_, 'C15.R4', 'upgrader:%s:target' % e.method,
                  '%s() is a trapping call on the contract_address parameter' % e.method, esite(g, e), e.describe())
    for e in migs:
        rep.check(core(e.target) == target and not e.try_ and core(e.args) == data, 'C15.R4', 'upgrader:migrate:target',
                  'migrate is a trapping invoke on contract_address with the migration_data parameter', esite(g, e), e.describe())
    others = [e for e in state_effects(g) if e not in upg and e not in migs]
    rep.check(not others, 'C15.R4', 'upgrader:no-other-effects', 'Upgrader.upgrade has no other effect', entry_id(g),
              '; '.join(x.describe() for x in others)[:200])

    def vguard(op, allowed_sites):
        def pred(c_):
            if c_[0] != 'cmp' or c_[1] != op:
                return False
            a, b = core(c_[2]), core(c_[3])
            for x, y in ((a, b), (b, a)):
                if y == newver and x[0] == 'call' and len(x) > 3 and tuple(x[3]) in allowed_sites:
                    return True
            return False
        return pred
    for e in upg:
        rep.check(core(e.args[0]) == wasmh if e.args else False, 'C15.R4', 'upgrader:upgrade:hash', 'upgrade() receives the new_wasm_hash parameter', esite(g, e))
        pre = [v for v in vers if precedes_always(g, [v.node], e.node)]
        differs = guard_sel(g, vguard('ne', set(v.node for v in pre)))
        ok, _, w = mg(g, [e.node], (), edges(differs)) if differs else (False, None, None)
        rep.check(ok, 'C15.R4', 'upgrader:version-differs-before', 'upgrade() must-guarded by version() != new_version',
                  esite(g, e), None, w)
        ok, _ = mf(g, [e.node], [m.node for m in migs])
        rep.check(ok and bool(migs), 'C15.R4', 'upgrader:upgrade-then-migrate', 'upgrade() is followed by the migrate invoke on every success path', esite(g, e))
    post = [v for v in vers if migs and precedes_always(g, [m.node for m in migs], v.node)]
    rep.floor('upgrader version() calls after migrate', len(post), 1)
    equals = guard_sel(g, vguard('eq', set(v.node for v in post)))
    rep.check(bool(equals) and g.success_needs((), edges(equals)), 'C15.R4', 'upgrader:version-equals-after',
              'every success exit is guarded by version() == new_version read after the migrate invoke', entry_id(g))
    rep.check(g.success_needs([e.node for e in upg]) and g.success_needs([m.node for m in migs]), 'C15.R4', 'upgrader:both-steps',
              'every success exit is preceded by both upgrade() and migrate', entry_id(g))
