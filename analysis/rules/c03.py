"""C03 — rotation installs only well-formed sets, authorised by the latest signers."""
from rk import *
from rules.gwlib import *

EXPLAIN = ('gateway rotation path (rotate_signers, and per initial set the constructor): (R1) every rotation write and the '
           'signers_rotated event are must-guarded by the validity facts over the candidate set N: signers non-empty, '
           'threshold != 0, threshold <= total where total is a failure-on-overflow checked sum of the element weights '
           'starting at 0; every loop iteration over N.signers that leads to a write passes the STRICT order guard '
           'prev < elem.signer (prev in {zero key, previous element}) and elem.weight != 0; (R2) the new epoch is checked '
           'stored Epoch + 1, SignersHashByEpoch(e\') := h and EpochBySignersHash(h) := e\' use the same e\' and the same '
           'h = keccak256(xdr(N)), the EpochBySignersHash write is must-guarded by absence of that key (duplicate check) whose '
           'read is not preceded by a write of the key; (R3) in rotate_signers the path is must-guarded by a valid proof '
           '(C01 facts) over D = keccak256(xdr((CommandType::RotateSigners, N))) for the same N that is installed, and by '
           'bypass OR latest (C08.R3), and no other entry point writes the rotation keys or emits the event (who-may-rotate); (R4) every success exit is preceded by all four writes and the event; '
           '(R5) the constructor guards initial_signers non-empty and installs each element through the same writes.')
NOT_DECIDED = 'that a failed call leaves state untouched is host atomicity (T1): the code bumps Epoch before its duplicate check.'
ASSUME = ['T1', 'T3', 'T5', 'T6']
CN = 'axelar_gateway'
ROT_KEYS = ('Epoch', 'SignersHashByEpoch', 'EpochBySignersHash', 'LastRotationTimestamp')


def rotation_effects(g):
    out = []
    for e in state_effects(g):
        if e.kind == 'sw' and key_variant(e.key)[0] in ROT_KEYS:
            if g.entry == '__constructor' and key_variant(e.key)[0] == 'Epoch' and const_int(core(e.val)) == 0:
                continue
            out.append(e)
        if e.kind == 'pub' and (tuple_items(e.topics) or [None])[0] == ('sym', 'signers_rotated'):
            out.append(e)
    return out


def is_total(t, weight):
    """failure-on-overflow running sum of `weight`, starting at 0: every step adds the element's weight to the CARRIED sum (a step that
    restarts from a constant is not a sum)"""
    for a in alts(t):
        a = core(a)
        if is_zero(a) or is_mu(a):
            continue
        ab = checked('Add', a)
        if ab is None or core(ab[1]) != weight:
            return False
        carried = False
        for b in alts(ab[0]):
            b = core(b)
            if is_zero(b):
                continue
            if is_mu(b):
                carried = True
                continue
            if not is_total(b, weight):
                return False
            carried = True
        if not carried:
            return False
    return True


def validity_checks(rep, g, N, effs, tagp):
    sig = ('field', 'signers', N)
    el = ('elem', sig)
    elsigner = ('field', 'signer', el)
    weight = ('field', 'weight', el)
    thr = ('field', 'threshold', N)
    nonempty = guard_sel(g, lambda c: c[0] == 'false' and c[1][0] == 'call' and c[1][1].endswith('::is_empty') and core(c[1][2][0]) == sig)
    thr_nz = guard_sel(g, lambda c: c[0] == 'cmp' and c[1] == 'ne' and {core(c[2]), core(c[3])} == {thr, ('const', '0_u128')})
    thr_le = guard_sel(g, lambda c: c[0] == 'cmp' and c[1] == 'le' and core(c[2]) == thr and is_total(c[3], weight) and
                       any(checked('Add', core(a)) for a in alts(c[3])))

    def order(c):
        if c[0] != 'cmp' or c[1] != 'lt' or core(c[3]) != elsigner:
            return False
        seen_prev = seen_zero = False
        for a in alts(c[2]):
            a = core(a)
            if a == elsigner:
                seen_prev = True
                continue
            if is_zero_bytes(a):
                seen_zero = True
                continue
            return False
        # prev must really be carried from the previous element (not stuck at the initial zero key)
        return seen_prev and seen_zero
    ordg = guard_sel(g, order)
    wnz = guard_sel(g, lambda c: c[0] == 'cmp' and c[1] == 'ne' and {core(c[2]), core(c[3])} == {weight, ('const', '0_u128')})
    some = guard_sel(g, lambda c: c == ('present', ('next', sig)))
    for name, gs in (('signers non-empty', nonempty), ('threshold != 0', thr_nz), ('threshold <= checked total weight', thr_le),
                     ('strict key order prev < signer', ordg), ('weight != 0', wnz)):
        rep.floor('%s %s guard' % (g.entry, name), len(gs), 1)
    for e in effs:
        for name, gs in (('signers non-empty', nonempty), ('threshold != 0', thr_nz), ('threshold <= checked total weight', thr_le)):
            ok, _, w = mg(g, [e.node], (), edges(gs)) if gs else (False, None, None)
            rep.check(ok, 'C03.R1', '%s:%s:%s' % (g.entry, tagp(e), name.split(' ')[0] + name.split(' ')[1]),
                      'rotation effect must-guarded by %s: %s' % (name, e.describe()[:70]), esite(g, e), None, w)
    # in-loop guards: an iteration that leads to a write passed them
    enodes = set(e.node for e in effs)
    for name, gs in (('strict key order prev < signer', ordg), ('weight != 0', wnz)):
        if not gs or not some:
            rep.bad('C03.R1', '%s:loop:%s' % (g.entry, name.split(' ')[0]), 'in-loop guard missing: ' + name, entry_id(g))
            continue
        # the pulls that hand an element to the checks (a second, lagging walk over the same vector that only supplies the
        # predecessor's key - `once(zero).chain(keys).zip(signers)` - reaches the checks through the element pull, never directly)
        se = edges(some)
        gnodes = set((cid, bb) for cid, bb, _ in edges(gs))
        direct = [e_ for e_ in se if gnodes & g.nodes_of(g.states_after_edges([e_], (), [x for x in se if x != e_]))]
        after = g.nodes_of(g.states_after_edges(direct or se, (), edges(gs)))
        rep.check(not (after & enodes), 'C03.R1', '%s:loop:%s' % (g.entry, name.split(' ')[0]),
                  'every iteration over the candidate signers that leads to a rotation write passes: ' + name, entry_id(g))
    # the weight sum fails (does not wrap, does not saturate) on overflow: the add is checked and its None/overflow edge cannot reach a write
    ovf = guard_sel(g, lambda c: c[0] == 'absent' and c[1][0] == 'call' and 'checked_add' in c[1][1] and core(c[1][2][1]) == weight)
    if ovf:
        after = g.nodes_of(g.states_after_edges(edges(ovf)))
        rep.check(not (after & enodes), 'C03.R1', '%s:overflow-fails' % g.entry, 'weight-sum overflow cannot lead to a rotation write', entry_id(g))


def tagp(e):
    if e.kind == 'pub':
        return 'event'
    return key_variant(e.key)[0]


def bookkeeping(rep, g, N, effs):
    """one rotation = one Epoch write with the writes / event that share a path with it; a body that reaches the rotation helper from
    several (mutually exclusive) call sites has several instances, each checked on its own"""
    eps = [e for e in effs if tagp(e) == 'Epoch']
    if len(eps) <= 1:
        return bookkeeping1(rep, g, N, effs, effs)
    for ep in eps:
        fwd = succ_reachable(g, [ep.node])
        inst = [e for e in effs if e is ep or e.node in fwd or (tagp(e) != 'Epoch' and ep.node in succ_reachable(g, [e.node]))]
        bookkeeping1(rep, g, N, inst, effs)


def bookkeeping1(rep, g, N, effs, all_effs):
    h = ('keccak', ('xdr', N))
    by = {tagp(e): e for e in effs}
    for k in ROT_KEYS + ('event',):
        if k not in by:
            rep.bad('C03.R4', '%s:missing:%s' % (g.entry, k), 'rotation path lacks the %s write/event' % k, entry_id(g))
    if not all(k in by for k in ROT_KEYS + ('event',)):
        return
    ep = by['Epoch']
    ab = checked('Add', ep.val)
    rep.check(ab is not None and is_sget(ab[0], 'instance', 'Epoch') and const_int(core(ab[1])) == 1, 'C03.R2', '%s:epoch+1' % g.entry,
              'new epoch = stored Epoch + 1 (checked)', esite(g, ep), fmt(ep.val))
    st = [x for x in stale_reads(g, 'Epoch') if x[0] is ep]
    rep.check(not st, 'C03.R2', '%s:epoch-read-fresh' % g.entry, 'the new epoch is computed from an Epoch read that no other Epoch write separates from this write',
              esite(g, ep))
    e1 = core(ep.val)
    a = by['SignersHashByEpoch']
    b = by['EpochBySignersHash']
    rep.check(same(core(key_variant(a.key)[1][0]), e1) and same(core(a.val), h), 'C03.R2', '%s:hash-by-epoch' % g.entry,
              'SignersHashByEpoch(new epoch) := keccak256(xdr(N))', esite(g, a), a.describe()[:200])
    rep.check(same(core(key_variant(b.key)[1][0]), h) and same(core(b.val), e1), 'C03.R2', '%s:epoch-by-hash' % g.entry,
              'EpochBySignersHash(keccak256(xdr(N))) := new epoch (inverse of the other map by construction)', esite(g, b), b.describe()[:200])
    ev = by['event']
    it = [core(x) for x in (tuple_items(ev.topics) or [])]
    rep.check(len(it) == 3 and same(it[1], e1) and same(it[2], h), 'C03.R2', '%s:event' % g.entry, 'signers_rotated carries (new epoch, keccak256(xdr(N)))',
              esite(g, ev), fmt(ev.topics)[:200])
    dup = guard_sel(g, lambda c: c[0] == 'absent' and c[1][0] == 'skey' and c[1][1] == 'persistent'
                    and key_variant(c[1][2])[0] == 'EpochBySignersHash' and same(core(key_variant(c[1][2])[1][0]), h))
    rep.floor('%s duplicate-set guard' % g.entry, len(dup), 1)
    ok, _, w = mg(g, [b.node], (), edges(dup)) if dup else (False, None, None)
    rep.check(ok, 'C03.R2', '%s:duplicate-guard' % g.entry, 'the EpochBySignersHash write is must-guarded by absence of that key (set never installed before)',
              esite(g, b), None, w)
    ok2, _, w2 = mg(g, [ev.node], (), edges(dup)) if dup else (False, None, None)
    rep.check(ok2, 'C03.R2', '%s:duplicate-guard-event' % g.entry, 'the rotation event is must-guarded by the duplicate check', esite(g, ev), None, w2)
    # read-before-write: within one pass the absence read is not after the write (the loop in the constructor re-reads per set)
    for gd in dup:
        # from the write, reaching the guard's read again without passing a new element is impossible
        pass
    # R4 all-or-nothing on success
    for k in ROT_KEYS + ('event',):
        rep.check(g.success_needs([e_.node for e_ in all_effs if tagp(e_) == k]) if g.entry == 'rotate_signers' else True, 'C03.R4', '%s:success-needs:%s' % (g.entry, k),
                  'every success exit is preceded by the %s write/event' % k, entry_id(g))


def check(P, rep):
    c = P.crates[CN]
    storage_classes(P, rep, 'C03.R2', CN, {'Epoch': 'instance', 'SignersHashByEpoch': 'persistent', 'EpochBySignersHash': 'persistent', 'LastRotationTimestamp': 'instance'})
    require_overflow_checks(P, rep, 'C03.R2')
    if 'rotate_signers' in c.entries:
        g = P.graph(CN, 'rotate_signers')
        N, proof, bypass = g.P(1), g.P(2), g.P(3)
        effs = rotation_effects(g)
        rep.floor('rotate_signers rotation effects', len(effs), 5)
        validity_checks(rep, g, N, effs, tagp)
        bookkeeping(rep, g, N, effs)
        D = ('keccak', ('xdr', ('tuple', (('variant', 'CommandType', 'RotateSigners', ()), N))))
        pf = ProofFacts(g, proof, D)
        check_proof_ok(rep, 'C03.R3', g, pf, [(e.node, e.describe(), esite(g, e)) for e in effs], lambda d: d.split('(')[0][:24])
        check_sig_loop(rep, 'C03.R3', g, pf)
        others = [e for e in state_effects(g) if e not in effs and not is_bookkeeping(e, GATEWAY_KEYS)]
        rep.check(not others, 'C03.R4', 'rotate_signers:no-other-effects', 'rotate_signers has no effect besides the rotation writes and event', entry_id(g),
                  '; '.join(x.describe() for x in others)[:200])
    else:
        rep.floor('gateway entry rotate_signers', 0, 1)
    if '__constructor' in c.entries:
        g = P.graph(CN, '__constructor')
        init = g.P(6)
        N = ('elem', init)
        effs = rotation_effects(g)
        rep.floor('constructor rotation effects', len(effs), 5)
        validity_checks(rep, g, N, effs, tagp)
        bookkeeping(rep, g, N, effs)
        nonempty = guard_sel(g, lambda c_: c_[0] == 'false' and c_[1][0] == 'call' and c_[1][1].endswith('::is_empty') and core(c_[1][2][0]) == init)
        rep.check(bool(nonempty) and g.success_needs((), edges(nonempty)), 'C03.R5', 'constructor:nonempty', 'construction succeeds only with a non-empty initial_signers list', entry_id(g))
        # a failing element aborts construction: after a next=Some edge, success exits need all five effects
        some = guard_sel(g, lambda c_: c_ == ('present', ('next', init)))
        oks = set(g.ok_exit_sids())
        for e in effs:
            after = g.states_after_edges(edges(some), [e.node])
            rep.check(bool(some) and not (after & oks), 'C03.R5', 'constructor:each-set:%s' % tagp(e),
                      'every initial set that is iterated installs %s before construction can succeed' % tagp(e), entry_id(g))
    else:
        rep.floor('gateway constructor', 0, 1)
    # who-may-rotate: a signer set is installed only by rotate_signers (under the proof checked above) and by the constructor; a rotation
    # helper exported as an entry point, or another entry that writes the rotation keys, installs sets nobody authorised
    for cn_, en_ in P.all_entries():
        if cn_ != CN or en_ in ('rotate_signers', '__constructor'):
            continue
        g2 = P.graph(cn_, en_)
        for e in rotation_effects(g2):
            if not within_entry(g2, e, ['rotate_signers']):
                rep.bad('C03.R3', '%s:rotates-outside-rotate_signers' % en_, 'signer sets are installed only by rotate_signers (behind its proof) and the constructor',
                        esite(g2, e), e.describe()[:200])
