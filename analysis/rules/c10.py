"""C10 — ITS codec is exact canonical Solidity ABI and never misdecodes (structural part)."""
from rk import *
from guards import negate
from rules.itslib import *

EXPLAIN = ('ITS abi module (structural, necessary clauses): (R1) every alloy decode call in the crate (abi_decode_params / '
           'abi_decode) passes validate = true (floor 5); (R2) tag/struct/variant agreement in both directions: encoding '
           'variant V builds sol struct S_V with messageType = tag T_V; decoding decodes S_V only behind the dispatch edge '
           'type == T_V and builds V from it; unknown tags yield Err; (R3) field bijection: the encode map (Rust field -> sol '
           'field) and the decode map (sol field -> Rust field) are mutually inverse and total for all four structs; '
           '(R4) type table: sol struct layouts and tag values equal the ITS wire spec; (R5) the decoded amount derives from the '
           'low 16 bytes only behind the guards high128 == 0 and low128 >= 0; encoding converts through a trapping try_into; '
           '(R6) the message type is read from payload[0..32] only behind len >= 32 and every struct decode lies behind it; '
           '(R7) panic inventory: every leaf reachable from the two decoders is on the allow-list (no-panic, or guarded as listed); '
           '(R8) empty bytes decode to None and None encodes to empty bytes; (R9) refusal inventory of the decoders: no input-dependent '
           'refusal besides length, type, canonicity and the amount range.')
NOT_DECIDED = ('that alloy-sol-types\' output is byte-for-byte the Solidity ABI and that validate=true rejects every non-canonical '
               'encoding (T7): the core bit-exactness/canonicity statement is NOT decided by this check.')
ASSUME = ['T6', 'T7']

SPEC_STRUCTS = {
    'InterchainTransfer': [('messageType', 'Uint<256, 4>'), ('tokenId', 'FixedBytes<32>'), ('sourceAddress', 'Bytes'), ('destinationAddress', 'Bytes'),
                           ('amount', 'Uint<256, 4>'), ('data', 'Bytes')],
    'DeployInterchainToken': [('messageType', 'Uint<256, 4>'), ('tokenId', 'FixedBytes<32>'), ('name', 'String'), ('symbol', 'String'), ('decimals', 'u8'),
                              ('minter', 'Bytes')],
    'SendToHub': [('messageType', 'Uint<256, 4>'), ('destination_chain', 'String'), ('message', 'Bytes')],
    'ReceiveFromHub': [('messageType', 'Uint<256, 4>'), ('source_chain', 'String'), ('message', 'Bytes')],
}
SPEC_TAGS = [('InterchainTransfer', 0), ('DeployInterchainToken', 1), ('DeployTokenManager', 2), ('SendToHub', 3), ('ReceiveFromHub', 4)]

NO_PANIC = (
    ' as core::clone::Clone>::clone', ' as core::convert::Into<', ' as core::convert::From<', ' as core::convert::AsRef<', ' as core::ops::Deref>::deref',
    ' as core::ops::DerefMut>::deref_mut', ' as core::cmp::PartialEq', ' as core::default::Default>::default', ' as core::convert::TryInto<',
    'alloy_sol_types::', 'alloy_primitives::', 'ruint::', 'soroban_sdk::Bytes::to_alloc_vec', 'soroban_sdk::Bytes::from_slice', 'soroban_sdk::BytesN::<32>::from_array',
    'soroban_sdk::String::from_str', 'core::num::<impl i128>::from_le_bytes', 'core::slice::<impl [u8]>::len', 'core::slice::<impl [u8]>::is_empty',
    'core::slice::<impl [u8]>::get::<', 'core::slice::<impl [u8]>::iter', '<core::slice::Iter<\'_, u8> as core::iter::Iterator>::next',
    'core::num::<impl i128>::is_negative', 'core::num::<impl i128>::is_positive',
    'alloc::string::String::from_utf8', 'soroban_sdk::String::len', 'impl core::convert::TryFrom<alloy_primitives::Uint<256, 4>> for i128>::try_from', ' as core::ops::Try>::branch', ' as core::ops::FromResidual',
)
GUARDED_PANIC = {
    'core::slice::index::<impl core::ops::Index<core::ops::Range<usize>> for [u8]>::index': 'payload[0..32] behind len >= 32 (R6)',
    'core::slice::index::<impl core::ops::Index<core::ops::RangeTo<usize>> for [u8]>::index': 'as_le_slice()[..16] of a 32-byte Uint<256,4>',
    'core::slice::index::<impl core::ops::Index<core::ops::RangeFrom<usize>> for [u8]>::index': 'as_le_slice()[16..] of a 32-byte Uint<256,4>',
    'core::slice::<impl [u8]>::copy_from_slice': '16-byte array from a 16-byte sub-slice',
    'core::slice::<impl [u8]>::split_at': 'as_le_slice().split_at(16) of a 32-byte Uint<256,4> (argument checked)',
}


def find_codec(c):
    """the four codec functions, located by SIGNATURE (not by name): (Message | HubMessage, &Env) -> Result<Bytes, _> and
    (&Env, &Bytes) -> Result<Message | HubMessage, _>"""
    out = {}
    for key, inst in c.inst.items():
        if inst['crate'] != CN or inst.get('is_closure'):
            continue
        L = inst['locals']
        argc = inst.get('argc', 0)
        params = L[1:argc + 1]
        ret = L[0]
        for tag in ('Message', 'HubMessage'):
            # the message types are matched by name, whatever module they live in
            if argc == 2 and re.fullmatch(r'(\w+::)*' + tag, params[0]) and ret.startswith('core::result::Result<soroban_sdk::Bytes,'):
                out.setdefault('<impl types::%s>::abi_encode' % tag, key)
            if argc == 2 and re.match(r'core::result::Result<(\w+::)*%s,' % tag, ret) and '&soroban_sdk::Bytes' in params and '&soroban_sdk::Env' in params:
                out.setdefault('<impl types::%s>::abi_decode' % tag, key)
    return out


def short_ty(t):
    t = t.replace('alloy_primitives::', '').replace('abi::alloc::string::', '').replace('abi::alloc::', '').replace('ruint::', '')
    return t


def rets(g):
    return ret_terms(g)


def check(P, rep):
    c = P.crates[CN]
    # R1 strict decoding, static scan over every instance of the crate
    nd = 0
    for key, inst in c.inst.items():
        for bi, b in enumerate(inst['blocks']):
            if b['cleanup']:
                continue
            t = b['term']
            if t['t'] == 'call' and re.search(r'alloy_sol_types::.*::abi_decode(_params|_sequence)?(::<.*>)?$', t['callee']):
                nd += 1
                a = t['args'][1] if len(t['args']) > 1 else None
                okv = a is not None and a['k'] == 'const' and a['v'].strip().endswith('true')
                rep.check(okv, 'C10.R1', 'strict:%s:%s' % (inst['def'].split('::')[-2] if '::' in inst['def'] else inst['def'], t['callee'].split('<abi::')[-1].split(' ')[0]),
                          'alloy decode is called with validate = true', '%s (in %s)' % ((t.get('at') or '').split('/repo/')[-1], inst['def']), t['callee'][:120])
    rep.floor('alloy decode call sites', nd, 5)
    # R4 type table
    for name, spec in SPEC_STRUCTS.items():
        a = adt_of(c, name, lambda a_: any(f['name'] == 'messageType' for f in a_['variants'][0]['fields']))
        got = [(f['name'], short_ty(f['ty'])) for f in a['variants'][0]['fields']] if a else None
        rep.check(got == spec, 'C10.R4', 'layout:' + name, 'sol struct %s has the ITS wire layout' % name, CN, str(got))
    a = adt_of(c, 'MessageType', lambda a_: any(v['name'].startswith('__') for v in a_['variants'])) or adt_of(c, 'MessageType')
    got = [(v['name'], int(v['discr'])) for v in a['variants'] if not v['name'].startswith('__')] if a else None
    rep.check(got == SPEC_TAGS, 'C10.R4', 'tags', 'message type tags are 0..4 in spec order', CN, str(got))
    ra = adt_of(c, 'MessageType')
    # graphs of the four codec functions
    fns = {}
    found = find_codec(c)
    for nm in ('<impl types::Message>::abi_encode', '<impl types::Message>::abi_decode', '<impl types::HubMessage>::abi_encode', '<impl types::HubMessage>::abi_decode'):
        k = found.get(nm)
        if k is None:
            rep.floor('codec function (by signature) ' + nm, 0, 1)
            continue
        fns[nm] = P.graph_at(CN, k, nm.replace('<impl types::', '').replace('>', ''))
    if len(fns) != 4:
        return
    hub_adt = adt_of(c, 'HubMessage')
    hub_fields = {v['name']: [f['name'] for f in v['fields']] for v in hub_adt['variants']} if hub_adt else {}
    enc_maps, dec_maps = {}, {}
    # ---- encoders
    for nm, level in (('<impl types::Message>::abi_encode', 'msg'), ('<impl types::HubMessage>::abi_encode', 'hub')):
        g = fns[nm]
        selfp = g.P(1)
        structs = []
        for r in rets(g):
            for a in alts(r):
                if variant_name(a) == 'Ok':
                    for x in alts(a[3][0]):
                        s = sol_struct(x)
                        cx = core(x)
                        if s and cx[0] == 'call' and len(cx) > 3 and cx[3]:
                            # evaluate the struct's fields AT the construction site: data merged alongside a "which path" tag and split
                            # again by a later match is resolved by the states of that site
                            s = sol_struct(norm(g.leaf_term(g.ctxs[cx[3][0]], cx[3][1]))) or s
                        if s:
                            structs.append(s)
                        else:
                            rep.bad('C10.R2', 'encode:%s:shape' % level, 'an encoder result is not abi_encode_params of a sol struct', entry_id(g), fmt(x)[:200])
        rep.floor('%s sol structs built' % nm, len(structs), 2)
        for sname, f in structs:
            tag = variant_name(core(f.get('messageType', ('u',))))
            rep.check(tag == sname, 'C10.R2', 'encode:%s:tag' % sname, 'encoding builds sol struct %s with messageType = %s' % (sname, sname), entry_id(g), str(tag))
            m = {}
            for gname, t in f.items():
                if gname == 'messageType':
                    continue
                srcs = set()
                for x in subterms(t):
                    if level == 'msg' and x[0] == 'field' and x[2][0] == 'payload' and x[2][3] == selfp:
                        srcs.add((x[2][1], x[1]))
                    if level == 'hub' and x[0] == 'payload' and x[3] == selfp:
                        names = hub_fields.get(x[1], [])
                        srcs.add((x[1], names[x[2]] if x[2] < len(names) else str(x[2])))
                rep.check(len(srcs) == 1 and list(srcs)[0][0] == sname, 'C10.R3', 'encode:%s.%s:source' % (sname, gname),
                          'sol field %s.%s is built from exactly one field of variant %s' % (sname, gname, sname), entry_id(g), str(sorted(srcs)))
                if len(srcs) == 1:
                    m[gname] = list(srcs)[0][1]
                    rep.check(enc_shape_ok(gname, t, level), 'C10.R3', 'encode:%s.%s:conversion' % (sname, gname),
                              'sol field %s.%s is the identity conversion of its source (bytes/array as is, string via UTF-8 copy, amount via try_into, '
                              'optional bytes via empty-for-None)' % (sname, gname), entry_id(g), fmt(t)[:240])
            enc_maps[sname] = m
            # R5 encode side / R8
            if 'amount' in f:
                am = core(f['amount'])
                rep.check(am[0] == 'call' and 'TryInto<alloy_primitives::Uint<256, 4>>>::try_into' in am[1], 'C10.R5', 'encode:amount-trapping',
                          'amount is converted by a trapping try_into (negative amounts cannot be encoded)', entry_id(g), fmt(f['amount'])[:200])
            for ob in ('data', 'minter'):
                if ob in f:
                    rep.check(opt_bytes(f[ob]) not in (None, 'EMPTY'), 'C10.R8', 'encode:%s.%s:none-is-empty' % (sname, ob), 'None encodes as empty bytes, Some(b) as b', entry_id(g), fmt(f[ob])[:200])
    # ---- decoders
    for nm, level in (('<impl types::Message>::abi_decode', 'msg'), ('<impl types::HubMessage>::abi_decode', 'hub')):
        g = fns[nm]
        pl = g.P(1)
        builds = []
        saw_err = False
        for r in rets(g):
            for a in alts(r):
                if variant_name(a) == 'Err':
                    saw_err = True
                if variant_name(a) == 'Ok':
                    for x in alts(a[3][0]):
                        if x[0] != 'variant':
                            rep.bad('C10.R2', 'decode:%s:shape' % level, 'a decoder result is not a message variant', entry_id(g), fmt(x)[:200])
                            continue
                        if level == 'msg':
                            inner = fields_of(core(x[3][0])) if x[3] else None
                            builds.append((x[2], inner or {}))
                        else:
                            names = hub_fields.get(x[2], [])
                            builds.append((x[2], dict(zip(names, x[3]))))
        # evaluate each variant AT its construction site (path-sensitive: data carried alongside a "which path" tag and split again by a
        # later match is resolved by the states of that site); the return-term view above stays the shape check
        sited = []
        want = 'Message' if level == 'msg' else 'HubMessage'
        for ctx_ in g.ctxs:
            for d_ in ctx_.body['defs']:
                if d_['kind'] == 'assign' and d_['rv']['r'] == 'agg' and d_['rv'].get('is_enum') and re.fullmatch(r'(\w+::)*' + want, d_['rv'].get('adt', '')) \
                        and (ctx_.id, d_['bb']) in g.node_states:
                    x = norm(g.term_def(ctx_, d_, 0))
                    if x[0] != 'variant':
                        continue
                    if level == 'msg':
                        inner = fields_of(core(x[3][0])) if x[3] else None
                        sited.append((x[2], inner or {}))
                    else:
                        sited.append((x[2], dict(zip(hub_fields.get(x[2], []), x[3]))))
        if sited and sorted(set(v for v, _ in sited)) == sorted(set(v for v, _ in builds)):
            builds = sited
        rep.floor('%s variants built' % nm, len(builds), 2)
        rep.check(saw_err, 'C10.R2', 'decode:%s:unknown-tag-err' % level, 'unsupported tags / failed decodes return Err', entry_id(g))
        for vname, f in builds:
            m = {}
            for fname, t in f.items():
                srcs = set()
                for x in subterms(t):
                    if x[0] == 'field':
                        d = decode_call(x[2])
                        if d and core(d[1]) == pl:
                            srcs.add((d[0], x[1]))
                rep.check(len(srcs) == 1 and list(srcs)[0][0] == vname, 'C10.R3', 'decode:%s.%s:source' % (vname, fname),
                          'Rust field %s.%s is built from exactly one field of sol struct %s decoded from the payload' % (vname, fname, vname), entry_id(g), str(sorted(srcs)))
                if len(srcs) == 1:
                    m[fname] = list(srcs)[0][1]
                    rep.check(dec_shape_ok(fname, t, level), 'C10.R3', 'decode:%s.%s:conversion' % (vname, fname),
                              'Rust field %s.%s is the identity conversion of its sol field (bytes/array as is, string via from_str, amount via the '
                              'range-checked low half, optional bytes via None-for-empty)' % (vname, fname), entry_id(g), fmt(t)[:240])
            dec_maps[vname] = m
        # dispatch: each struct decode lies behind type == its tag, and behind the length guard
        lens = guard_sel(g, lambda c_: c_[0] == 'cmp' and c_[1] == 'le' and const_int(core(c_[2])) == 32 and core(c_[3])[0] == 'call' and core(c_[3])[1].endswith('[u8]>::len')
                         and core(core(c_[3])[2][0]) == pl)
        # the non-panicking spelling of the same guard: payload.get(..32) / payload.get(0..32) is Some
        lens += guard_sel(g, lambda c_: c_[0] == 'present' and is_prefix_get(c_[1], pl, 32))
        rep.floor('%s len >= 32 guard' % nm, len(lens), 1)
        for ctx, bb, t in g.call_nodes():
            m_ = re.search(r'<abi::(\w+) as alloy_sol_types::SolValue>::abi_decode_params', t['callee'])
            if m_:
                sname = m_.group(1)
                a0 = core(norm(g.arg_terms(ctx, bb)[0]))
                if a0 != pl:
                    continue      # nested decoder, checked in its own graph
                disp = guard_sel(g, lambda c_: c_[0] == 'is' and c_[1] == sname and contains(c_[2], pl) and
                                 find(c_[2], lambda s: s[0] == 'call' and 'abi::MessageType as alloy_sol_types::SolValue>::abi_decode' in s[1]) is not None)
                ok, _, w = mg(g, [(ctx.id, bb)], (), edges(disp)) if disp else (False, None, None)
                rep.check(ok, 'C10.R2', 'decode:%s:dispatch' % sname, 'sol struct %s is decoded only behind the dispatch edge message type == %s' % (sname, sname),
                          site(g, ctx, bb), None, w)
                ok, _, w = mg(g, [(ctx.id, bb)], (), edges(lens)) if lens else (False, None, None)
                rep.check(ok, 'C10.R6', 'decode:%s:after-length-check' % sname, 'struct decode lies behind payload.len() >= 32', site(g, ctx, bb), None, w)
            if t['callee'].endswith('for [u8]>::index') and 'Range<usize>' in t['callee']:
                a = [norm(x) for x in g.arg_terms(ctx, bb)]
                if core(a[0]) == pl:
                    rng = fields_of(core(a[1])) or {}
                    rep.check(const_int(core(rng.get('start', ('u',)))) == 0 and const_int(core(rng.get('end', ('u',)))) == 32, 'C10.R6', 'decode:%s:type-slice' % level,
                              'the message type is read from payload[0..32]', site(g, ctx, bb), fmt(a[1]))
                    ok, _, w = mg(g, [(ctx.id, bb)], (), edges(lens)) if lens else (False, None, None)
                    rep.check(ok, 'C10.R6', 'decode:%s:slice-guarded' % level, 'payload[0..32] is taken only behind payload.len() >= 32', site(g, ctx, bb), None, w)
        # R7 panic inventory
        seen = set()
        for ctx, bb, t in g.call_nodes():
            cal = t['callee']
            if cal in seen:
                continue
            seen.add(cal)
            base = re.sub(r'^\w+::', '', cal)
            if t['to'] < 0:
                rep.bad('C10.R7', 'decode:%s:diverging:%s' % (level, base[:60]), 'a diverging (panicking) call is reachable from the decoder', site(g, ctx, bb), cal[:160])
                continue
            if any(p in cal for p in NO_PANIC):
                continue
            hit = [k for k in GUARDED_PANIC if cal.endswith(k)]
            if hit and hit[0].endswith('split_at'):
                for ctx2, bb2, t2 in g.call_nodes():
                    if t2['callee'] == cal:
                        a2 = [core(norm(x)) for x in g.arg_terms(ctx2, bb2)]
                        oksp = len(a2) == 2 and const_int(a2[1]) is not None and 0 <= const_int(a2[1]) <= 32 and a2[0][0] == 'field' and a2[0][1] == 'amount' \
                            and decode_call(a2[0][2], 'InterchainTransfer') is not None
                        rep.check(oksp, 'C10.R7', 'decode:%s:split_at-in-range' % level, 'split_at is applied to the 32 little-endian bytes of the decoded amount with a '
                                  'constant mid <= 32 (cannot panic)', site(g, ctx2, bb2), '; '.join(fmt(x) for x in a2)[:200])
            if hit:
                rep.ok('C10.R7', 'may-panic leaf allowed: %s — %s' % (hit[0].split('::')[-2] if '::' in hit[0] else hit[0], GUARDED_PANIC[hit[0]]), site(g, ctx, bb))
                continue
            rep.bad('C10.R7', 'decode:%s:unlisted-leaf:%s' % (level, base[:70]), 'a leaf call reachable from the decoder is not on the no-panic allow-list (classify it)',
                    site(g, ctx, bb), cal[:200])
        # R5 decode side: amount guards
        if level == 'msg':
            hi = guard_sel(g, lambda c_: c_[0] == 'cmp' and c_[1] == 'eq' and const_int(core(c_[3])) == 0 and is_half(c_[2], 'RangeFrom') or
                           c_[0] == 'cmp' and c_[1] == 'eq' and const_int(core(c_[2])) == 0 and is_half(c_[3], 'RangeFrom'))
            lo = guard_sel(g, lambda c_: c_[0] == 'cmp' and c_[1] == 'le' and const_int(core(c_[2])) == 0 and is_half(c_[3], 'RangeTo'))
            if not hi:
                hi = all_zero_high_half(g)
            lib_idiom = any('amount' in f and is_try_from_amount(f['amount']) for _, f in builds)
            if lib_idiom:
                rep.ok('C10.R5', 'amount converted with the library\'s checked i128::try_from(uint256) (rejects values above i128::MAX)', entry_id(g))
                hi = lo = None
            else:
                rep.floor('amount high-128 == 0 guard', len(hi), 1)
                rep.floor('amount low-128 >= 0 guard', len(lo), 1)
            for vname, f in builds:
                if 'amount' not in f or lib_idiom:
                    continue
                rep.check(is_half(f['amount'], 'RangeTo'), 'C10.R5', 'decode:amount-low-half', 'the Rust amount is the little-endian low 16 bytes of the decoded uint256 '
                          '(recognised idioms: byte halves of as_le_slice with both range guards, or i128::try_from)', entry_id(g), fmt(f['amount'])[:300])
            # the Ok(InterchainTransfer) construction lies behind both guards
            for ctx, bb, t in g.call_nodes():
                pass
            oks = [s for s in g.ok_exit_sids()]
            root = g.ctxs[0]
            # definition nodes that build the InterchainTransfer variant
            for did, d in enumerate(root.body['defs']):
                if d['kind'] == 'assign' and d['rv']['r'] == 'agg' and d['rv'].get('adt', '').endswith('types::InterchainTransfer'):
                    n = (0, d['bb'])
                    for name, gs in (() if lib_idiom else (('high 128 bits == 0', hi), ('low 128 bits >= 0', lo))):
                        ok, _, w = mg(g, [n], (), edges(gs)) if gs else (False, None, None)
                        rep.check(ok, 'C10.R5', 'decode:amount-guard:' + name.split(' ')[0], 'an InterchainTransfer is built only behind: amount ' + name, site(g, root, d['bb']), None, w)
        # R9 refusal inventory: "decoding that encoding returns the same message" - the decoder refuses an input only because it is too
        # short, of an unknown type, not a canonical ABI encoding (the library's own Err) or because the amount does not fit: any other
        # input-dependent refusal (e.g. a business rule such as amount > 0 mirrored into the codec) rejects encodings of valid messages
        def expected_refusal(c_):
            if c_[0] in ('is', 'isnot', 'isnot_any'):
                # dispatch on the decoded type word: an unknown / unsupported message type
                return find(c_[2], lambda s_: s_[0] == 'call' and 'abi::MessageType as alloy_sol_types::SolValue>::abi_decode' in s_[1]) is not None
            n_ = negate(c_)       # the condition under which decoding goes on
            if n_[0] == 'cmp' and n_[1] == 'le' and const_int(core(n_[2])) == 32 and core(n_[3])[0] == 'call' and core(n_[3])[1].endswith('[u8]>::len'):
                return True       # too short for the type word
            if n_[0] == 'cmp' and n_[1] == 'eq' and ((const_int(core(n_[3])) == 0 and is_half(n_[2], 'RangeFrom')) or (const_int(core(n_[2])) == 0 and is_half(n_[3], 'RangeFrom'))):
                return True       # amount >= 2^128
            if n_[0] == 'cmp' and n_[1] == 'le' and const_int(core(n_[2])) == 0 and is_half(n_[3], 'RangeTo'):
                return True       # amount >= 2^127
            if n_[0] == 'cmp' and n_[1] == 'eq' and n_[2][0] == 'elem' and is_hi_slice(n_[2][1]) and const_int(core(n_[3])) == 0:
                return True       # amount >= 2^128, byte by byte
            return False
        for gd in rejecting_edges(g):
            c_ = gd.cond
            okr = expected_refusal(c_)
            if not okr and c_[0] in ('present', 'absent'):
                okr = True      # a library lookup failing (from_utf8 / try_from / first_chunk ...): decided by the library, not a comparison of ours
            rep.check(okr, 'C10.R9', 'decode:%s:unexpected-refusal:%s' % (level, fmt(c_)[:60]),
                      'the decoder refuses an input only for being too short, of an unknown type, non-canonical or out of the amount range', site(g, gd.ctx, gd.bb), fmt(c_)[:240])
        # R8 decode side
        for vname, f in builds:
            for ob in ('data', 'minter'):
                if ob in f:
                    al = alts(f[ob])
                    kinds = sorted(variant_name(a) or '?' for a in al)
                    rep.check(kinds == ['None', 'Some'], 'C10.R8', 'decode:%s.%s:empty-is-none' % (vname, ob), 'optional bytes decode to None or Some', entry_id(g), str(kinds))
        if level == 'msg':
            # direction of the empty test: a Some(bytes) built from an optional sol field lies behind "field is NOT empty"
            nsome = 0
            for ctx in g.ctxs:
                for d in ctx.body['defs']:
                    if d['kind'] == 'assign' and d['rv']['r'] == 'agg' and d['rv'].get('adt') == 'core::option::Option' and d['rv'].get('variant') == 'Some' \
                            and (ctx.id, d['bb']) in g.node_states:
                        t_ = norm(g.term_def(ctx, d, 0))
                        fld = find(t_, lambda s_: s_[0] == 'field' and s_[1] in ('data', 'minter') and decode_call(s_[2]) is not None)
                        if fld is None:
                            continue
                        nsome += 1
                        ne = guard_sel(g, lambda c_: (c_[0] == 'false' and c_[1][0] == 'call' and re.search(r'(\[u8\]>|Bytes|Vec::<u8>)::is_empty$', c_[1][1]) is not None and same(core(c_[1][2][0]), fld))
                                       or (c_[0] == 'cmp' and c_[1] == 'ne' and is_len_of(c_[2], fld) and const_int(core(c_[3])) == 0)
                                       or (c_[0] == 'cmp' and c_[1] == 'lt' and const_int(core(c_[2])) == 0 and is_len_of(c_[3], fld)))
                        ok, _, w = mg(g, [(ctx.id, d['bb'])], (), edges(ne)) if ne else (False, None, None)
                        rep.check(ok, 'C10.R8', 'decode:%s:some-only-if-nonempty' % fld[1], 'Some(bytes) is built only behind "the sol field is not empty" (empty decodes to None)',
                                  site(g, ctx, d['bb']), None, w)
            rep.floor('optional-bytes Some constructions in Message::abi_decode', nsome, 2)
            em = guard_sel(g, lambda c_: (c_[0] in ('true', 'false') and c_[1][0] == 'call' and re.search(r'(\[u8\]>|Bytes|Vec::<u8>)::is_empty$', c_[1][1]) is not None)
                           or (c_[0] == 'cmp' and c_[1] in ('eq', 'ne') and is_len_of(c_[2], None) and const_int(core(c_[3])) == 0))
            rep.floor('empty-bytes guards in Message::abi_decode', len(em), 2)
    # R3 bijection
    for s in ('InterchainTransfer', 'DeployInterchainToken', 'SendToHub', 'ReceiveFromHub'):
        e, d = enc_maps.get(s), dec_maps.get(s)
        if e is None or d is None:
            rep.bad('C10.R3', 'bijection:%s:missing' % s, 'encode or decode map for %s could not be extracted' % s, CN)
            continue
        inv = {v: k for k, v in e.items()}
        spec_fields = [n for n, _ in SPEC_STRUCTS[s] if n != 'messageType']
        rep.check(inv == d and sorted(e) == sorted(spec_fields) and len(inv) == len(e), 'C10.R3', 'bijection:' + s,
                  'encode (Rust->sol) and decode (sol->Rust) field maps of %s are mutually inverse and total' % s, CN, 'encode %s ; decode %s' % (e, d))


def _src_ref(t):
    """t is a direct reference to a source field: field of payload($self) (encode) or field of a decoded struct (decode)"""
    t = core(t)
    if t[0] == 'field' and (t[2][0] == 'payload' or decode_call(t[2]) is not None):
        return True
    if t[0] == 'payload' and t[3][0] == 'param':
        return True
    return False


def enc_shape_ok(gname, t, level):
    c = core(t)
    if gname == 'tokenId':
        return c[0] == 'call' and c[1].endswith('FixedBytes::<32>::new') and _src_ref(c[2][0])
    if gname == 'amount':
        return c[0] == 'call' and 'TryInto<alloy_primitives::Uint<256, 4>>>::try_into' in c[1] and _src_ref(c[2][0])
    if gname in ('data', 'minter'):
        x = opt_bytes(t)
        return x not in (None, 'EMPTY') and _src_ref(x)
    if gname in ('name', 'symbol', 'destination_chain', 'source_chain'):
        x = std_string_of(t)
        return x is not None and _src_ref(x)
    if gname == 'message' and level == 'hub':
        # bytes of the inner message's own ABI encoding
        return find(t, lambda s: sol_struct(s) is not None) is not None
    return _src_ref(c)


def dec_shape_ok(fname, t, level):
    c = core(t)
    if fname == 'amount':
        return is_half(t, 'RangeTo') or is_try_from_amount(t)
    if fname in ('data', 'minter'):
        al = alts(t)
        somes = [a for a in al if variant_name(a) == 'Some']
        return len(al) == 2 and len(somes) == 1 and _src_ref(somes[0][3][0])
    if fname in ('name', 'symbol', 'destination_chain', 'source_chain'):
        return c[0] == 'call' and c[1].endswith('soroban_sdk::String::from_str') and _src_ref(c[2][1])
    if fname == 'message' and level == 'hub':
        return find(t, lambda s: s[0] == 'variant' and s[1] == 'Message') is not None
    return _src_ref(c)


def is_try_from_amount(t):
    """second recognised idiom: the library's checked conversion i128::try_from(decoded.amount) / decoded.amount.try_into()"""
    t = core(t)
    if t[0] == 'call' and re.search(r'<i128 as core::convert::TryFrom<.*Uint<256, 4>>>::try_from$|Uint<256, 4> as core::convert::TryInto<i128>>::try_into$|impl core::convert::TryFrom<alloy_primitives::Uint<256, 4>> for i128>::try_from$', t[1]):
        a = core(t[2][0])
        return a[0] == 'field' and a[1] == 'amount' and decode_call(a[2], 'InterchainTransfer') is not None
    return False


def is_len_of(t, fld):
    """length of the byte slice `fld` (any when fld is None): `x.len()` or the slice-pattern length test"""
    t = core(t)
    if t[0] == 'un' and t[1] == 'PtrMetadata':
        return fld is None or same(core(t[2]), fld)
    if t[0] == 'call' and t[1].endswith('[u8]>::len'):
        return fld is None or same(core(t[2][0]), fld)
    return False


def is_hi_slice(x):
    """amount_le_bytes[16..] of the decoded InterchainTransfer amount"""
    x = core(x)
    if x[0] == 'field' and x[1] == '1' and core(x[2])[0] == 'call' and core(x[2])[1].endswith('[u8]>::split_at'):
        # as_le_slice().split_at(16).1
        sp = core(x[2])
        amt = core(sp[2][0])
        return const_int(core(sp[2][1])) == 16 and amt[0] == 'field' and amt[1] == 'amount' and decode_call(amt[2], 'InterchainTransfer') is not None
    if not (x[0] == 'call' and 'core::ops::RangeFrom<usize>> for [u8]>::index' in x[1]):
        return False
    rng = fields_of(core(x[2][1])) or {}
    amt = core(x[2][0])
    return const_int(core(rng.get('start', ('u',)))) == 16 and amt[0] == 'field' and amt[1] == 'amount' and decode_call(amt[2], 'InterchainTransfer') is not None


def all_zero_high_half(g):
    """the other spelling of 'the high 128 bits are zero': `le_bytes[16..].iter().all(|b| b == 0)`.  Returns the exhausted-edges of a
    loop over amount_le_bytes[16..] whose every iteration can only continue through `element == 0`"""
    done = guard_sel(g, lambda c_: c_[0] == 'absent' and c_[1][0] == 'next' and is_hi_slice(c_[1][1]))
    more = guard_sel(g, lambda c_: c_[0] == 'present' and c_[1][0] == 'next' and is_hi_slice(c_[1][1]))
    zero = guard_sel(g, lambda c_: c_[0] == 'cmp' and c_[1] == 'eq' and c_[2][0] == 'elem' and is_hi_slice(c_[2][1]) and const_int(core(c_[3])) == 0)
    if not (done and more and zero):
        return []
    heads = set((gd.ctx.id, gd.bb) for gd in more)
    # after taking an element, the loop head (and so the exhausted edge) is reachable again only through `element == 0`
    after = g.nodes_of(g.states_after_edges(edges(more), (), edges(zero)))
    prev = set()
    for (cid, bb) in heads:
        prev |= set((cid, p_) for p_ in g.ctxs[cid].body['preds'][bb])
    if after & (heads | prev):
        return []
    return done


def is_prefix_get(t, pl, n):
    """pl.get(..n) or pl.get(0..n)  (Some iff pl.len() >= n)"""
    t = core(t)
    if not (t[0] == 'call' and re.search(r'\[u8\]>::get::<core::ops::Range(To)?<usize>>$', t[1]) and len(t[2]) == 2 and core(t[2][0]) == pl):
        return False
    rng = fields_of(core(t[2][1])) or {}
    if const_int(core(rng.get('end', ('u',)))) != n:
        return False
    return 'start' not in rng or const_int(core(rng['start'])) == 0


def is_half(t, which):
    """from_le_bytes of the low (RangeTo ..16) / high (RangeFrom 16..) half of as_le_slice(decoded amount)"""
    t = core(t)
    if not (t[0] == 'call' and t[1].endswith('from_le_bytes')):
        return False
    m = t[2][0]
    if m[0] != 'mut' or not m[1].endswith('copy_from_slice') or not m[3]:
        return False
    src = core(m[3][0])
    if src[0] == 'field' and src[1] == ('0' if which == 'RangeTo' else '1') and core(src[2])[0] == 'call' and core(src[2])[1].endswith('[u8]>::split_at'):
        # as_le_slice().split_at(16): .0 = low half, .1 = high half
        sp = core(src[2])
        amt = core(sp[2][0])
        return const_int(core(sp[2][1])) == 16 and amt[0] == 'field' and amt[1] == 'amount' and decode_call(amt[2], 'InterchainTransfer') is not None
    if not (src[0] == 'call' and ('core::ops::%s<usize>> for [u8]>::index' % which) in src[1]):
        return False
    rng = fields_of(core(src[2][1])) or {}
    bound = const_int(core(rng.get('end' if which == 'RangeTo' else 'start', ('u',))))
    amt = core(src[2][0])
    return bound == 16 and amt[0] == 'field' and amt[1] == 'amount' and decode_call(amt[2], 'InterchainTransfer') is not None
