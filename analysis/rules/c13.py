"""C13 — outbound calls are announced exactly, and only under the sender's authority."""
from rk import *

EXPLAIN = ('gateway call_contract: (R1) exactly one event publish on every success path, must-guarded by '
           'require_auth of the caller parameter; (R2) topics = (contract_called, caller, destination_chain, '
           'destination_address, keccak256(payload)) and data = payload, all entry parameters (def-use provenance); '
           '(R3) no storage write/remove, cross-contract call, deployment or code swap reachable.')
NOT_DECIDED = 'that keccak256 is Keccak-256 (T5).'
ASSUME = ['T1', 'T2', 'T5', 'T6']


def check(P, rep):
    c = P.crates['axelar_gateway']
    rep.floor('gateway entry call_contract', int('call_contract' in c.entries), 1)
    if 'call_contract' not in c.entries:
        return
    g = P.graph('axelar_gateway', 'call_contract')
    caller, dchain, daddr, payload = g.P(1), g.P(2), g.P(3), g.P(4)
    pubs = [e for e in effects(g) if e.kind == 'pub']
    rep.floor('call_contract publishes', len(pubs), 1)
    an = auth_nodes(g, lambda s: core(s) == caller)
    # R1
    rep.check(len(pubs) == 1, 'C13.R1', 'call_contract:one-publish', 'exactly one publish site reachable (found %d)' % len(pubs),
              entry_id(g))
    for e in pubs:
        ok, badn, w = mg(g, [e.node], an)
        rep.check(ok, 'C13.R1', 'call_contract:publish-auth', 'publish is must-guarded by require_auth(caller)', esite(g, e),
                  e.describe(), w)
        again = e.node in succ_reachable(g, [e.node])
        rep.check(not again, 'C13.R1', 'call_contract:publish-once', 'publish cannot repeat on a path', esite(g, e))
    ok = g.success_needs([e.node for e in pubs])
    rep.check(ok, 'C13.R1', 'call_contract:publish-on-success',
              'every success exit is preceded by the publish', entry_id(g))
    # R2
    for e in pubs:
        items = tuple_items(e.topics) or []
        want = [('sym', 'contract_called'), caller, dchain, daddr, ('keccak', payload)]
        rep.check([core(x) for x in items] == want, 'C13.R2', 'call_contract:topics',
                  'topics are (contract_called, caller, destination_chain, destination_address, keccak256(payload))',
                  esite(g, e), fmt(e.topics))
        rep.check(core(e.data) == payload, 'C13.R2', 'call_contract:data', 'event data is the payload parameter',
                  esite(g, e), fmt(e.data))
    # R3
    others = [e for e in state_effects(g) if e.kind != 'pub']
    rep.check(not others, 'C13.R3', 'call_contract:effect-free', 'no state change or cross-contract call reachable',
              entry_id(g), '; '.join(x.describe() for x in others))
