"""C06 — admin operations need the current role holder's authorisation (generic over all entry points)."""
from rk import *

EXPLAIN = ('Generic over every contract entry point found in the build: every protected effect (writes/removes of the '
           'owner, operator, migration-flag, trusted-chain, operator-set and minter keys; code swap; owner mint; '
           'gas-service outflows; gateway rotation with the delay check skipped) reachable from a non-constructor entry '
           'is must-guarded by require_auth of a value READ from the corresponding role slot of the current contract, '
           'the read not being preceded by a write of that slot (R1); values written to role slots are exactly the '
           'successor parameter (R2); the rotation path is reachable only through the delay guard or operator auth (R3); '
           'the gas collector slot is constructor-only; the inventory entry -> (roles, effects) is reported (R4).')
NOT_DECIDED = 'host authorisation semantics (T2); storage keys that are not in the protected-effect table.'
ASSUME = ['T1', 'T2', 'T3', 'T6']

OWNER = 'Interfaces_Owner'
OPERATOR = 'Interfaces_Operator'
MIGRATING = 'Interfaces_Migrating'


def role_auth(g, variant):
    """(auth nodes whose subject is a read of the role slot, list of ordering problems)"""
    nodes = []
    problems = []
    writes = [e for e in effects(g) if e.kind in ('sw', 'sr') and key_variant(e.key)[0] == variant]
    for a in auths(g):
        if a.for_args:
            continue      # require_auth_for_args binds a list chosen by the contract, not "that exact call" (seeded change C06-c)
        s = core(a.subject)
        if not is_sget(s, 'instance', variant):
            continue
        rsite = s[3] if len(s) > 3 else None
        stale = False
        if rsite is not None:
            after = succ_reachable(g, [w.node for w in writes])
            if tuple(rsite) in after:
                stale = True
        if stale:
            problems.append(a)
        else:
            nodes.append(a.node)
    return nodes, problems


def required_role(crate, entry, e):
    """role key variant whose holder must authorise effect e (None: not protected)"""
    k = e.kind
    if k in ('sw', 'sr', 'supd'):
        v = key_variant(e.key)[0]
        if v == OWNER:
            return OWNER
        if v == OPERATOR:
            return OPERATOR
        if v == MIGRATING:
            return OWNER
        if crate == 'interchain_token_service' and v == 'TrustedChain':
            return OWNER
        if crate == 'axelar_operators' and v == 'Operators':
            return OWNER
        if crate == 'interchain_token' and v == 'Minter':
            return OWNER
        if crate == 'axelar_gas_service' and v == 'GasCollector':
            return 'NEVER'
        if crate == 'interchain_token' and entry == 'mint' and v == 'Balance':
            return OWNER
    if k == 'wasm':
        return OWNER
    if crate == 'axelar_gas_service' and k == 'xcall':
        m = e.method
        a = [core(x) for x in e.args]
        if m in ('transfer', 'burn', 'approve') and a and a[0] == ('self',):
            return 'GasCollector'
        if m in ('transfer_from', 'burn_from') and len(a) > 1 and (a[0] == ('self',) or a[1] == ('self',)):
            return 'GasCollector'
    if crate == 'axelar_gas_service' and k == 'invoke':
        return 'GasCollector'
    return None


def check(P, rep):
    n_entries = 0
    n_prot = 0
    inventory = {}
    for cn, en in P.all_entries():
        g = P.graph(cn, en)
        n_entries += 1
        ctor = en == '__constructor'
        inv = inventory.setdefault(cn, {}).setdefault(en, {'roles': set(), 'effects': 0})
        cache = {}
        for e in state_effects(g):
            role = required_role(cn, en, e)
            # R2: role slots receive exactly an entry parameter
            if e.kind == 'sw' and key_variant(e.key)[0] in (OWNER, OPERATOR, 'GasCollector'):
                v = core(e.val)
                okv = is_param(v) and v in [g.P(i) for i in range(1, 8)]
                rep.check(okv, 'C06.R2', '%s::%s:%s-value' % (cn, en, key_variant(e.key)[0]),
                          'value written to role slot %s is an entry parameter (the named successor)' % key_variant(e.key)[0],
                          esite(g, e), fmt(e.val))
            if role is None or ctor:
                continue
            n_prot += 1
            inv['effects'] += 1
            inv['roles'].add(role)
            if role == 'NEVER':
                rep.bad('C06.R1', '%s::%s:gas-collector-rewrite' % (cn, en),
                        'the gas collector slot is written outside the constructor', esite(g, e), e.describe())
                continue
            if role not in cache:
                cache[role] = role_auth(g, role)
            nodes, stale = cache[role]
            ok, badn, w = mg(g, [e.node], nodes)
            what = '%s requires require_auth(stored %s)' % (e.describe()[:140], role)
            rep.check(ok, 'C06.R1', '%s::%s:%s:%s' % (cn, en, e.kind, role), what, esite(g, e),
                      'auth sites: %d; stale-read auth sites ignored: %d' % (len(nodes), len(stale)), w)
        inv['roles'] = sorted(inv['roles'])
    for cn_ in P.crates:
        storage_classes(P, rep, 'C06.R1', cn_, {'Interfaces_Owner': 'instance', 'Interfaces_Operator': 'instance', 'GasCollector': 'instance', 'Interfaces_Migrating': 'instance'})
    # R2: a role transfer really hands the role over: every success exit of a transfer entry is preceded by the write of the successor
    nt = 0
    for cn, en in P.all_entries():
        role = {'transfer_ownership': OWNER, 'set_admin': OWNER, 'transfer_operatorship': OPERATOR}.get(en)
        if role is None:
            continue
        g = P.graph(cn, en)
        ws = [e for e in state_effects(g) if e.kind == 'sw' and key_variant(e.key)[0] == role and core(e.val) == g.P(1)]
        nt += 1
        rep.check(bool(ws) and g.success_needs([e.node for e in ws]), 'C06.R2', '%s::%s:installs-successor' % (cn, en),
                  'every success exit of the role transfer is preceded by %s := the named successor' % role, entry_id(g))
    rep.floor('role transfer entries', nt, 7)
    rep.floor('entry points analysed', n_entries, 90)
    rep.floor('protected admin effects found', n_prot, 25)
    # R3: gateway rotation path: delay guard or operator auth
    if 'rotate_signers' in P.crates['axelar_gateway'].entries:
        g = P.graph('axelar_gateway', 'rotate_signers')
        opn, _ = role_auth(g, OPERATOR)
        delay = guard_sel(g, lambda c: is_delay_guard(c))
        rep.floor('gateway delay guard edges', len(delay), 1)
        rot = [e for e in state_effects(g)]
        for e in rot:
            ok, badn, w = mg(g, [e.node], opn, edges(delay))
            rep.check(ok, 'C06.R3', 'axelar_gateway::rotate_signers:%s:delay-or-operator' % e.kind,
                      'rotation effect reachable only through the delay guard or require_auth(stored operator): '
                      + e.describe()[:120], esite(g, e), None, w)
    else:
        rep.floor('gateway entry rotate_signers', 0, 1)
    rep.note('inventory: ' + '; '.join('%s.%s->%s' % (c, e, ','.join(v['roles']))
                                        for c, es in sorted(inventory.items()) for e, v in sorted(es.items()) if v['roles']))


def is_delay_guard(c):
    """now - last >= min  (canonical: min <= now - last)"""
    if c[0] != 'cmp' or c[1] != 'le':
        return False
    lhs, rhs = core(c[2]), c[3]
    if not is_sget(lhs, 'instance', 'MinimumRotationDelay'):
        return False
    return is_elapsed(rhs)


def is_elapsed(t):
    """checked (now - last-or-0)"""
    if not (isinstance(t, tuple) and t[0] == 'field' and t[1] == '0'):
        return False
    b = t[2]
    if not (b[0] == 'bin' and b[1] == 'SubWithOverflow'):
        return False
    if b[2] != ('now',):
        return False
    last = alts(b[3])
    reads = [x for x in last if is_sget(x, 'instance', 'LastRotationTimestamp')]
    consts = [x for x in last if is_zero(x)]
    return len(reads) >= 1 and len(reads) + len(consts) == len(last)
