"""C08 — old signer sets stay valid for exactly the configured number of rotations."""
from rk import *
from rules.gwlib import *

EXPLAIN = ('gateway: (R1) in each proof-taking entry the retention guard is exactly epoch - e <= retention (checked '
           'subtraction) with epoch = stored Epoch, retention = stored PreviousSignerRetention, e = stored '
           'EpochBySignersHash(hash of the proof\'s signer set); (R2) that guard must-guards every effect of '
           'approve_messages and rotate_signers and every success exit of validate_proof; (R3) rotation effects are '
           'must-guarded by bypass OR (e == stored Epoch), the Epoch read preceding any Epoch write; (R4) who-may-write: '
           'PreviousSignerRetention constructor-only from its parameter; Epoch written only as Epoch+1 on the rotation path '
           '(or 0 at construction); EpochBySignersHash(h) written with that same new epoch.')
NOT_DECIDED = 'nothing numeric beyond u64 overflow, which traps (checked arithmetic).'
ASSUME = ['T1', 'T3', 'T5', 'T6']
CN = 'axelar_gateway'


def check(P, rep):
    c = P.crates[CN]
    specs = []
    if 'approve_messages' in c.entries:
        g = P.graph(CN, 'approve_messages')
        specs.append((g, g.P(2)))
    if 'rotate_signers' in c.entries:
        g = P.graph(CN, 'rotate_signers')
        specs.append((g, g.P(2)))
    if 'validate_proof' in c.entries:
        g = P.graph(CN, 'validate_proof')
        specs.append((g, g.P(2)))
    rep.floor('proof-taking entries', len(specs), 3)
    for g, proof in specs:
        pf = ProofFacts(g, proof, ('any',))
        rep.floor('%s retention guard (exact form)' % g.entry, len([x for x in pf.retention if pf.is_retention(x.cond)]), 1)
        effs = state_effects(g)
        for e in effs:
            if g.entry == 'rotate_signers' and e.kind == 'auth':
                continue
            ok, _, w = mg(g, [e.node], (), edges(pf.retention)) if pf.retention else (False, None, None)
            rep.check(ok, 'C08.R2', '%s:%s:retention' % (g.entry, e.kind), 'effect is must-guarded by epoch - e <= retention: ' + e.describe()[:80],
                      esite(g, e), None, w)
        rep.check(bool(pf.retention) and g.success_needs((), edges(pf.retention)), 'C08.R2', '%s:success-retention' % g.entry,
                  'every success exit lies behind the retention guard', entry_id(g))
        # the epoch read used by the guard precedes any epoch write
        ew = [e.node for e in effs if e.kind == 'sw' and key_variant(e.key)[0] == 'Epoch']
        after = succ_reachable(g, ew) if ew else set()
        for gd in pf.retention:
            reads = [x for x in subterms(gd.cond) if x[0] == 'sget' and key_variant(x[2])[0] == 'Epoch']
            rep.check(bool(reads) and all(x[3] is not None and tuple(x[3]) not in after for x in reads), 'C08.R1', '%s:epoch-read-first' % g.entry,
                      'the guard uses the epoch read before this call changes it', site(g, gd.ctx, gd.bb))
    # R3 latest-or-bypass
    if 'rotate_signers' in c.entries:
        g = P.graph(CN, 'rotate_signers')
        proof, bypass = g.P(2), g.P(3)
        H = signers_hash_of_proof(proof)
        by_true = guard_sel(g, lambda c_: c_ == ('true', bypass))

        def latest(c_):
            if c_[0] != 'cmp' or c_[1] != 'eq':
                return False
            for a, b in ((c_[2], c_[3]), (c_[3], c_[2])):
                if is_epoch_of(a, H) and is_sget(b, 'instance', 'Epoch'):
                    return True
            return False
        lt = guard_sel(g, latest)
        rep.floor('rotate_signers latest-signers guard', len(lt), 1)
        for e in state_effects(g):
            ok, _, w = mg(g, [e.node], (), edges(lt) + edges(by_true))
            rep.check(ok, 'C08.R3', 'rotate_signers:%s:latest-or-bypass' % e.kind, 'rotation effect must-guarded by bypass OR proof set is the latest: ' + e.describe()[:80],
                      esite(g, e), None, w)
    storage_classes(P, rep, 'C08.R4', CN, {'Epoch': 'instance', 'EpochBySignersHash': 'persistent', 'PreviousSignerRetention': 'instance'})
    require_overflow_checks(P, rep, 'C08.R1')
    # R4 writers
    nw = 0
    for cn, en in P.all_entries():
        if cn != CN:
            continue
        g = P.graph(cn, en)
        for e in state_effects(g):
            if e.kind not in ('sw', 'sr', 'supd'):
                continue
            v = key_variant(e.key)[0]
            if v == 'PreviousSignerRetention':
                nw += 1
                rep.check(en == '__constructor' and e.kind == 'sw' and core(e.val) == g.P(5), 'C08.R4', '%s:retention-writer' % en,
                          'retention is set only by the constructor from its parameter', esite(g, e), e.describe())
            if v == 'Epoch':
                nw += 1
                ab = checked('Add', e.val) if e.kind == 'sw' else None
                inc = ab is not None and is_sget(ab[0], 'instance', 'Epoch') and const_int(core(ab[1])) == 1
                zero = e.kind == 'sw' and en == '__constructor' and const_int(core(e.val)) == 0
                rep.check((en in ('rotate_signers', '__constructor') or within_entry(g, e, ['rotate_signers'])) and (inc or zero), 'C08.R4', '%s:epoch-writer' % en,
                          'Epoch is written only as stored Epoch + 1 (checked) on the rotation path, or 0 at construction', esite(g, e), e.describe())
    rep.floor('retention/epoch writers', nw, 4)
    include_rules(P, rep, 'C08.R5', 'c03', lambda o: o['rule'] in ('C03.R2', 'C03.R5'), 'every installed set is registered under exactly its installation epoch, also at construction (C03.R2/R5)', 12)
    # the epoch counter counts installed sets: every epoch bump is followed, before any success exit, by the registration of a set under
    # exactly that epoch (otherwise the window is measured against epochs that installed nothing)
    for en in ('rotate_signers', '__constructor'):
        if en not in c.entries:
            continue
        g = P.graph(CN, en)
        bumps = [e for e in state_effects(g) if e.kind == 'sw' and key_variant(e.key)[0] == 'Epoch' and checked('Add', e.val) is not None]
        regs = [e for e in state_effects(g) if e.kind == 'sw' and key_variant(e.key)[0] == 'EpochBySignersHash']
        # ... and every bump counts from the CURRENT value: the Epoch read it adds 1 to is not separated from the write by another Epoch
        # write (a value cached before a loop of installations would install every set under the same epoch)
        stale = [x for x in stale_reads(g, 'Epoch')]
        rep.check(not stale, 'C08.R4', '%s:epoch-read-fresh' % en, 'the epoch bump adds 1 to an Epoch read that no other Epoch write separates from it '
                  '(read once per installation)', esite(g, stale[0][0]) if stale else entry_id(g))
        for b in bumps:
            same_epoch = [r for r in regs if same(core(r.val), core(b.val))]
            ok, _ = mf(g, [b.node], [r.node for r in same_epoch])
            rep.check(ok and bool(same_epoch), 'C08.R4', '%s:epoch-bump-installs-a-set' % en,
                      'every epoch bump is followed, before any success exit, by EpochBySignersHash(set) := that epoch', esite(g, b))
