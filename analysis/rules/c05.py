"""C05 — interchain transfers conserve value and announce exactly what was taken."""
from rk import *
from rules.itslib import *

EXPLAIN = ('ITS (structural, necessary clauses): (R1) interchain_transfer: every effect is must-guarded by amount > 0, the '
           'take by require_auth(caller); the take uses (caller, registered config of the token_id parameter, the same '
           'amount); (R2) take/give sibling agreement per registered manager type of the same id: NativeInterchainToken -> '
           'burn(sender, amount) / mint(recipient, amount); LockUnlock -> transfer(sender -> self, amount) / transfer(self '
           '-> recipient, amount), each arm must-guarded by the matching manager-type edge; (R3) the announced message is '
           'InterchainTransfer{token_id, source_address = xdr(caller), destination_address, amount, data} of the entry '
           'parameters and the sent-event carries the same terms plus the destination chain; (R4) both outbound calls are '
           'must-guarded by TrustedChain(destination chain) present, carry the SAME payload term = abi(SendToHub{destination '
           'chain, abi(message)}), hub chain constant and stored hub address, with gas_token and caller = entry parameters; '
           '(R5) inbound: the give uses (decoded recipient, registered config of the decoded id, decoded amount) and the '
           'received-event / executable call carry the same decoded terms; (R6) who-may-move-tokens: token-moving client '
           'calls occur only at the take (interchain_transfer), the give (execute) and the initial-supply mint '
           '(deploy_interchain_token); custody outflow (transfer from self) only in execute; (R7) the clauses of the statement that live in the called '
           'contracts are evaluated too: gas service pay_gas (C14), gateway call_contract (C13), token burn/mint/transfer exactness (C12.R1/R2), '
           'and "currently trusted": TrustedChain(_) is set / removed only by its owner-authorised entries and removal really removes the entry '
           'the outbound guard tests (C04.R2).')
NOT_DECIDED = ('the conservation equations over histories (custody = locked - released, supply accounting) are decided only through their inductive '
               'step (R1/R2/R5/R6: one take or give per successful call, of exactly the announced / decoded amount, on the registered token, and no other '
               'custody movement anywhere); the induction itself, direct third-party transfers, the inside of foreign token contracts (T8) and '
               'byte-exactness of the ABI encoding (T7) are not decided.')
ASSUME = ['T1', 'T2', 'T3', 'T6', 'T7', 'T8']
MOVERS = ('transfer', 'transfer_from', 'burn', 'burn_from', 'mint', 'mint_from', 'clawback')


def mtype_edge(g, variant, idterm):
    return guard_sel(g, lambda c: c[0] == 'is' and c[1] == variant and (config_of(c[2]) or (None, None))[0] == 'token_manager_type'
                     and same(config_of(c[2])[1], idterm))


def outbound(rep, g, rule, caller, dest, gas_token, check_inner):
    """C05.R4 on an entry graph; returns (pay_gas effect, call_contract effect)"""
    en = g.entry
    pg = [e for e in state_effects(g) if e.kind == 'xcall' and e.client == 'AxelarGasServiceClient' and e.method == 'pay_gas']
    cc = [e for e in state_effects(g) if e.kind == 'xcall' and e.client == 'AxelarGatewayMessagingClient' and e.method == 'call_contract']
    rep.check(len(pg) == 1 and len(cc) == 1, rule, '%s:outbound-sites' % en, 'exactly one pay_gas and one call_contract site', entry_id(g),
              'pay_gas=%d call_contract=%d' % (len(pg), len(cc)))
    if len(pg) != 1 or len(cc) != 1:
        return None
    pg, cc = pg[0], cc[0]
    tg = trusted_guard(g, lambda ch: ch == dest)
    rep.floor('%s trusted-destination guard' % en, len(tg), 1)
    hub = None
    for e in (pg, cc):
        ok, _, w = mg(g, [e.node], (), edges(tg)) if tg else (False, None, None)
        rep.check(ok, rule, '%s:%s:trusted-destination' % (en, e.method), '%s must-guarded by TrustedChain(destination chain) present' % e.method, esite(g, e), None, w)
        rep.check(g.success_needs([e.node]) and e.node not in succ_reachable(g, [e.node]) and not e.try_, rule, '%s:%s:once' % (en, e.method),
                  '%s happens exactly once (trapping) before every success exit' % e.method, esite(g, e))
    a, b = [core(x) for x in pg.args], [core(x) for x in cc.args]
    okpg = len(a) == 7 and a[0] == ('self',) and a[1][0] == 'lit' and is_sget(a[2], 'instance', 'ItsHubAddress') and a[4] == caller and a[5] == gas_token \
        and is_sget(pg.target, 'instance', 'GasService')
    rep.check(okpg, rule, '%s:pay_gas-terms' % en, 'pay_gas(self, hub chain, stored hub address, payload, payer = caller/spender parameter, gas_token parameter) on the stored gas service',
              esite(g, pg), pg.describe()[:300])
    okcc = len(b) == 4 and b[0] == ('self',) and b[1][0] == 'lit' and is_sget(b[2], 'instance', 'ItsHubAddress') and is_sget(cc.target, 'instance', 'Gateway')
    rep.check(okcc, rule, '%s:call_contract-terms' % en, 'call_contract(self, hub chain, stored hub address, payload) on the stored gateway', esite(g, cc), cc.describe()[:300])
    rep.check(len(a) > 3 and len(b) > 3 and same(a[3], b[3]) and same(a[1], b[1]), rule, '%s:same-payload' % en,
              'the gas service and the gateway receive the same payload and hub chain terms', esite(g, cc))
    hp = hub_payload(b[3]) if len(b) > 3 else None
    rep.check(hp is not None and hp['dest'] == dest, rule, '%s:payload-wrapper' % en, 'payload = abi(SendToHub{destination chain parameter, abi(message)})',
              esite(g, cc), fmt(b[3])[:300] if len(b) > 3 else '')
    if hp is not None:
        check_inner(hp['inner'], cc)
    ok, _, w = mg(g, [cc.node], [pg.node])
    rep.check(ok, rule, '%s:gas-before-call' % en, 'the gas payment precedes the gateway call', esite(g, cc), None, w)
    return pg, cc


def check(P, rep):
    c = P.crates[CN]
    # a transfer / a delivered transfer cannot die in a TTL extension of an entry that need not exist
    check_ttl_extensions(P, rep, 'C05.R6', CN, ['interchain_transfer', 'execute'], 4)
    # ---- outbound
    if 'interchain_transfer' in c.entries:
        g = P.graph(CN, 'interchain_transfer')
        caller, tid, dchain, daddr, amount, data, gas = [g.P(i) for i in range(1, 8)]
        effs = state_effects(g)
        pos = guard_sel(g, lambda c_: c_[0] == 'cmp' and c_[1] == 'lt' and const_int(core(c_[2])) == 0 and core(c_[3]) == amount)
        rep.floor('interchain_transfer amount>0 guard', len(pos), 1)
        an = auth_nodes(g, lambda s: core(s) == caller)
        for e in effs:
            ok, _, w = mg(g, [e.node], (), edges(pos)) if pos else (False, None, None)
            rep.check(ok, 'C05.R1', 'interchain_transfer:%s:positive' % effect_tag(e), '%s must-guarded by amount > 0' % effect_tag(e), esite(g, e), None, w)
        takes = [e for e in effs if e.kind == 'xcall' and e.client in ('TokenClient', 'StellarAssetClient', 'InterchainTokenClient') and e.method in MOVERS]
        rep.floor('interchain_transfer take sites', len(takes), 2)
        for e in takes:
            cfg = config_of(e.target)
            a = [core(x) for x in e.args]
            ok, _, w = mg(g, [e.node], an)
            rep.check(ok, 'C05.R1', 'interchain_transfer:%s:auth' % e.method, 'take must-guarded by require_auth(caller)', esite(g, e), None, w)
            rep.check(cfg == ('token_address', tid), 'C05.R1', 'interchain_transfer:%s:token' % e.method, 'take addresses the registered token of the token_id parameter', esite(g, e), fmt(e.target)[:200])
            if e.method == 'burn':
                rep.check(a == [caller, amount], 'C05.R2', 'take:burn-terms', 'NativeInterchainToken take = burn(caller, amount)', esite(g, e), e.describe()[:200])
                arm = mtype_edge(g, 'NativeInterchainToken', tid)
            elif e.method == 'transfer':
                rep.check(a == [caller, ('self',), amount], 'C05.R2', 'take:lock-terms', 'LockUnlock take = transfer(caller -> self, amount)', esite(g, e), e.describe()[:200])
                arm = mtype_edge(g, 'LockUnlock', tid)
            else:
                rep.bad('C05.R2', 'take:unexpected-%s' % e.method, 'unexpected token movement on the take side', esite(g, e), e.describe()[:200])
                continue
            ok, _, w = mg(g, [e.node], (), edges(arm)) if arm else (False, None, None)
            rep.check(ok, 'C05.R2', 'take:%s:arm' % e.method, 'take arm selected by the registered manager type of the same token id', esite(g, e), None, w)
        rep.check(bool(takes) and g.success_needs([e.node for e in takes]), 'C05.R1', 'interchain_transfer:take-on-success', 'every success exit is preceded by a take', entry_id(g))
        for e in takes:
            rep.check(not (set(x.node for x in takes) & succ_reachable(g, [e.node])), 'C05.R1', 'interchain_transfer:take-once', 'at most one take per call', esite(g, e))
        evs = [e for e in effs if e.kind == 'pub']
        rep.check(len(evs) == 1, 'C05.R3', 'interchain_transfer:one-event', 'exactly one event site', entry_id(g))
        for e in evs:
            it = [core(x) for x in (tuple_items(e.topics) or [])]
            dt = [core(x) for x in (tuple_items(e.data) or [])]
            rep.check(it == [('sym', 'interchain_transfer_sent'), tid, caller, dchain, daddr, amount] and dt == [data], 'C05.R3', 'interchain_transfer:event-terms',
                      'sent-event carries (token_id, caller, destination_chain, destination_address, amount; data) parameters', esite(g, e), e.describe()[:300])
            rep.check(g.success_needs([e.node]), 'C05.R3', 'interchain_transfer:event-on-success', 'the sent-event precedes every success exit', esite(g, e))

        def inner_ok(inner, cc):
            name, f = inner
            okm = name == 'InterchainTransfer' and variant_name(core(f.get('messageType'))) == 'InterchainTransfer'
            tok = core(f.get('tokenId', ('u',)))
            oki = tok[0] == 'call' and tok[1].endswith('FixedBytes::<32>::new') and core(tok[2][0]) == tid
            oks = core(f.get('sourceAddress', ('u',))) == ('xdr', caller)
            okd = core(f.get('destinationAddress', ('u',))) == daddr
            am = core(f.get('amount', ('u',)))
            oka = am[0] == 'call' and 'TryInto<alloy_primitives::Uint<256, 4>>>::try_into' in am[1] and core(am[2][0]) == amount
            okb = opt_bytes(f.get('data', ('u',))) == ('payload', 'Some', 0, data) or opt_bytes(f.get('data', ('u',))) == data
            rep.check(okm and oki and oks and okd and oka and okb, 'C05.R3', 'interchain_transfer:announced-message',
                      'announced InterchainTransfer{token_id, xdr(caller), destination_address, amount, data} are the entry parameters',
                      esite(g, cc), 'type=%s id=%s src=%s dst=%s amt=%s data=%s' % (okm, oki, oks, okd, oka, okb))
        outbound(rep, g, 'C05.R4', caller, dchain, gas, inner_ok)
    else:
        rep.floor('ITS entry interchain_transfer', 0, 1)
    # ---- inbound give
    if 'execute' in c.entries:
        g = P.graph(CN, 'execute')
        pl = g.P(4)
        effs = state_effects(g)
        gives = [e for e in effs if e.kind == 'xcall' and e.client in ('TokenClient', 'StellarAssetClient', 'InterchainTokenClient') and e.method in MOVERS]
        rep.floor('execute give sites', len(gives), 2)
        dec = lambda fld: (lambda t: find(t, lambda s: s[0] == 'field' and s[1] == fld and decode_call(s[2], 'InterchainTransfer') is not None) is not None)
        amt_ok = lambda t: dec('amount')(t) and find(t, lambda s: s[0] == 'call' and s[1].endswith('from_le_bytes')) is not None or dec('amount')(t)
        ids = set()
        for e in gives:
            cfg = config_of(e.target)
            a = [core(x) for x in e.args]
            rep.check(cfg is not None and cfg[0] == 'token_address' and dec('tokenId')(cfg[1]), 'C05.R5', 'give:%s:token' % e.method,
                      'give addresses the registered token of the decoded token id', esite(g, e), fmt(e.target)[:200])
            if cfg:
                ids.add(strip_sites(cfg[1]))
            if e.method == 'mint':
                okt = len(a) == 2 and dec('destinationAddress')(a[0])
                amt = a[1] if len(a) == 2 else ('u',)
                arm = mtype_edge(g, 'NativeInterchainToken', cfg[1]) if cfg else []
                rep.check(okt, 'C05.R2', 'give:mint-terms', 'NativeInterchainToken give = mint(decoded recipient, decoded amount)', esite(g, e), e.describe()[:200])
            elif e.method == 'transfer':
                okt = len(a) == 3 and a[0] == ('self',) and dec('destinationAddress')(a[1])
                amt = a[2] if len(a) == 3 else ('u',)
                arm = mtype_edge(g, 'LockUnlock', cfg[1]) if cfg else []
                rep.check(okt, 'C05.R2', 'give:unlock-terms', 'LockUnlock give = transfer(self -> decoded recipient, decoded amount)', esite(g, e), e.describe()[:200])
            else:
                rep.bad('C05.R2', 'give:unexpected-%s' % e.method, 'unexpected token movement on the give side', esite(g, e), e.describe()[:200])
                continue
            rep.check(amount_from_decoded(g, e, 1 if e.method == 'mint' else 2), 'C05.R5', 'give:%s:amount' % e.method,
                      'the amount given derives only from the decoded amount field', esite(g, e))
            ok, _, w = mg(g, [e.node], (), edges(arm)) if arm else (False, None, None)
            rep.check(ok, 'C05.R2', 'give:%s:arm' % e.method, 'give arm selected by the registered manager type of the same token id', esite(g, e), None, w)
            rep.check(not (set(x.node for x in gives) & succ_reachable(g, [e.node])), 'C05.R5', 'give:once', 'at most one give per delivery', esite(g, e))
        rep.check(len(ids) == 1, 'C05.R5', 'give:same-id', 'both give arms use the same decoded token id term', entry_id(g))
        rcv = [e for e in effs if e.kind == 'pub' and (tuple_items(e.topics) or [None])[0] == ('sym', 'interchain_transfer_received')]
        rep.floor('execute received-event', len(rcv), 1)
        for e in rcv:
            ok, _, w = mg(g, [e.node], [x.node for x in gives])
            rep.check(ok, 'C05.R5', 'received-event:after-give', 'the received-event is emitted only after a give', esite(g, e), None, w)
            it = tuple_items(e.topics) or []
            rep.check(len(it) >= 5 and dec('tokenId')(it[2]) and dec('amount')(it[-1]) if it else False, 'C05.R5', 'received-event:terms',
                      'received-event carries the decoded token id and amount', esite(g, e), fmt(e.topics)[:300])
        exe = [e for e in effs if e.kind == 'xcall' and e.client == 'InterchainTokenExecutableClient']
        for e in exe:
            a = [core(x) for x in e.args]
            origin = lambda t: find(t, lambda s_: s_[0] == 'field' and s_[1] == 'source_chain' and decode_call(s_[2], 'ReceiveFromHub') is not None) is not None
            okx = len(a) == 7 and origin(a[0]) and a[1] == g.P(2) and dec('sourceAddress')(a[2]) and dec('data')(a[3]) and dec('tokenId')(a[4]) and dec('amount')(a[6]) \
                and (config_of(a[5]) or (None,))[0] == 'token_address' and dec('destinationAddress')(core(e.target))
            rep.check(okx, 'C05.R5', 'executable-call:terms', 'the executable call goes to the decoded recipient with the decoded id, registered token and amount',
                      esite(g, e), e.describe()[:300])
            ok, _, w = mg(g, [e.node], [x.node for x in gives])
            rep.check(ok, 'C05.R5', 'executable-call:after-give', 'the executable call happens only after a give', esite(g, e), None, w)
    else:
        rep.floor('ITS entry execute', 0, 1)
    # ---- R7 clauses of this statement that live in the called contracts
    include_rules(P, rep, 'C05.R7', 'c14', lambda o: 'pay_gas' in (o.get('key') or '') + (o.get('site') or '') + o['what'],
                  'gas service charges exactly the stated gas payment from the payer', 6)
    include_rules(P, rep, 'C05.R7', 'c13', lambda o: True, 'gateway announces exactly the payload it was given', 5)
    include_rules(P, rep, 'C05.R7', 'c12', lambda o: o['rule'] in ('C12.R1', 'C12.R2') and any(x in (o.get('key') or '') + (o.get('site') or '') for x in
                                                                                      ('::burn ', '::mint ', '::transfer ', 'burn:', 'mint:', 'transfer:')),
                  'service-deployed token burns / mints / transfers exactly the amount (T9: the deployed wasm is built from contracts/interchain-token)', 10)
    include_rules(P, rep, 'C05.R7', 'c10', lambda o: o['rule'] in ('C10.R4',) or (o['rule'] in ('C10.R2', 'C10.R3', 'C10.R8') and 'encod' in o['what'] + (o.get('key') or '')),
                  'the announced payload is the ITS wire encoding of the transfer message (codec encode side, layouts)', 10)
    include_rules(P, rep, 'C05.R7', 'c10', lambda o: o['rule'] in ('C10.R5', 'C10.R1') or (o['rule'] == 'C10.R3' and 'InterchainTransfer' in o['what']) or
                  (o['rule'] == 'FLOOR' and 'amount' in o['what']),
                  'the amount / token id / addresses credited are exactly the announced ones (strict decode, range-checked amount conversion, field mapping)', 15)
    include_rules(P, rep, 'C05.R7', 'c04', lambda o: o['rule'] == 'C04.R2' and any(x in o['what'] for x in
                                                                          ('TrustedChain(chain) before every success exit', 'TrustedChain(_) is set / removed only under',
                                                                           'is_trusted_chain returns presence')),
                  '"currently trusted" destination: the trust set changes exactly as its two owner-only admin entries say, and removal really removes the entry the outbound guard tests', 5)
    # ---- R6 who-may-move-tokens
    nm = 0
    for cn, en in P.all_entries():
        if cn != CN:
            continue
        g = P.graph(cn, en)
        for e in state_effects(g):
            if e.kind == 'xcall' and e.method in MOVERS and e.client in ('TokenClient', 'StellarAssetClient', 'InterchainTokenClient'):
                nm += 1
                rep.check(en in ('interchain_transfer', 'execute', 'deploy_interchain_token') or within_entry(g, e, ('interchain_transfer', 'execute', 'deploy_interchain_token')), 'C05.R6', '%s:%s-mover' % (en, e.method),
                          'token movements occur only at the take, the give and the initial-supply mint', esite(g, e), e.describe()[:160])
                a = [core(x) for x in e.args]
                if e.method in ('transfer', 'burn') and a and a[0] == ('self',):
                    rep.check(en == 'execute', 'C05.R6', '%s:custody-outflow' % en, 'custody leaves the service only on an approved inbound delivery', esite(g, e))
            if e.kind == 'invoke':
                rep.bad('C05.R6', '%s:raw-invoke' % en, 'raw invoke_contract in the token service', esite(g, e), e.describe()[:160])
    rep.floor('ITS token movement sites', nm, 5)
    # a failing token movement must abort the call: no non-trapping (try_) client call and no raw try_invoke in the service
    for cn, en in P.all_entries():
        if cn != CN:
            continue
        g = P.graph(cn, en)
        trys = [e for e in effects(g) if e.kind in ('xcall', 'invoke') and e.try_]
        rep.check(not trys, 'C05.R6', '%s:no-try-calls' % en, 'no non-trapping (try_) cross-contract call (a failed movement / payment aborts the whole call)', entry_id(g),
                  '; '.join(x.describe() for x in trys)[:200])


def amount_from_decoded(g, e, argi):
    """value-flow: every origin of the amount operand is the decoded `amount` field (through the range-checked conversion)"""
    t = e.ctx.body['blocks'][e.bb]['term']
    chains = g.operand_chains(e.ctx, e.bb, t['args'][argi + 1])   # +1: receiver (client) is argument 0
    if not chains:
        return False
    for nodes, leaf in chains:
        if find(leaf, lambda s: s[0] == 'field' and s[1] == 'amount' and decode_call(s[2], 'InterchainTransfer') is not None) is None:
            if leaf[0] == 'repeat' or const_int(leaf) == 0:
                continue   # zero-initialised conversion buffers
            return False
    return True
