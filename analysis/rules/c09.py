"""C09 — rotations are rate-limited unless the operator bypasses the delay."""
from rk import *
from rules.c06 import is_delay_guard, role_auth

EXPLAIN = ('gateway rotate_signers: (R1) with the bypass flag false, every success exit lies behind the guard '
           'now - last_rotation(or 0) >= minimum_rotation_delay (exact relation, checked subtraction); the `last` value is '
           'read before this call writes the clock; (R2) every success exit of rotate_signers and of the constructor is '
           'preceded by LastRotationTimestamp := ledger timestamp (bypass restarts the clock, deployment counts); (R3) the delay test is reached only '
           'with the bypass flag false (a bypass rotation is never refused for the delay); '
           '(R4) with bypass true every success exit lies behind require_auth(stored operator); (R5) LastRotationTimestamp is '
           'written only with the ledger timestamp on rotation/constructor paths and MinimumRotationDelay only by the '
           'constructor from its parameter.')
NOT_DECIDED = 'ledger time itself; rollback of a failed rotation (T1).'
ASSUME = ['T1', 'T2', 'T3', 'T6']
CN = 'axelar_gateway'


def check(P, rep):
    c = P.crates[CN]
    if 'rotate_signers' not in c.entries:
        rep.floor('gateway entry rotate_signers', 0, 1)
        return
    g = P.graph(CN, 'rotate_signers')
    bypass = g.P(3)
    rep.check(g.param_type(3) == 'bool', 'C09.R1', 'rotate_signers:bypass-param', 'third parameter is the bypass flag', entry_id(g))
    delay = guard_sel(g, is_delay_guard)
    rep.floor('delay guard edges', len(delay), 1)
    by_true = guard_sel(g, lambda c_: c_ == ('true', bypass))
    by_false = guard_sel(g, lambda c_: c_ == ('false', bypass))
    rep.floor('branches on the bypass flag', len(by_true), 1)
    rep.check(g.success_needs((), edges(delay) + edges(by_true)), 'C09.R1', 'rotate_signers:delay-enforced',
              'without bypass every success exit lies behind now - last >= minimum delay', entry_id(g))
    # (R3) a bypass rotation ignores the delay: the delay test (and so its refusal) is reached only with the bypass flag false
    avoid = g.reach(None, (), edges(by_false)) if by_false else None
    for gd in delay:
        # the states in which THIS comparison is the one tested (the same switch may also test a constant `false` handed down on the
        # bypass path, e.g. `enforce.then(|| elapsed).is_some_and(|e| e < min)`): none of them is reachable without a bypass == false edge
        src = [sid for sid in g.node_states.get((gd.ctx.id, gd.bb), []) if any(lab == gd.label for _, lab in g.succ[sid])]
        ok = avoid is not None and not any(sid in avoid for sid in src)
        w = None
        rep.check(ok, 'C09.R3', 'rotate_signers:bypass-ignores-delay', 'the minimum-delay test is applied only when the bypass flag is false '
                  '(an authorised bypass rotation is never refused for the delay)', site(g, gd.ctx, gd.bb), None, w)
    clock = [e for e in state_effects(g) if e.kind == 'sw' and key_variant(e.key)[0] == 'LastRotationTimestamp']
    rep.floor('rotate_signers clock writes', len(clock), 1)
    # `last` is read before the clock is written
    after = succ_reachable(g, [e.node for e in clock])
    for gd in delay:
        reads = [x for x in subterms(gd.cond) if x[0] == 'sget' and key_variant(x[2])[0] == 'LastRotationTimestamp']
        okr = all(len(x) > 3 and x[3] is not None and tuple(x[3]) not in after for x in reads) and bool(reads)
        rep.check(okr, 'C09.R1', 'rotate_signers:last-read-before-write', 'the delay guard compares against the clock value read before this call\'s write',
                  site(g, gd.ctx, gd.bb))
    for e in clock:
        rep.check(core(e.val) == ('now',), 'C09.R5', 'rotate_signers:clock-value', 'clock is set to the ledger timestamp', esite(g, e), fmt(e.val))
    rep.check(g.success_needs([e.node for e in clock if core(e.val) == ('now',)]), 'C09.R2', 'rotate_signers:clock-restarts',
              'every successful rotation (bypass or not) sets the clock', entry_id(g))
    opn, _ = role_auth(g, 'Interfaces_Operator')
    rep.check(bool(by_false) and g.success_needs(opn, edges(by_false)), 'C09.R4', 'rotate_signers:bypass-needs-operator',
              'with bypass every success exit lies behind require_auth(stored operator)', entry_id(g))
    if '__constructor' in c.entries:
        gc = P.graph(CN, '__constructor')
        cl = [e for e in state_effects(gc) if e.kind == 'sw' and key_variant(e.key)[0] == 'LastRotationTimestamp' and core(e.val) == ('now',)]
        init = gc.P(6)
        nonempty = guard_sel(gc, lambda c_: c_[0] == 'false' and c_[1][0] == 'call' and c_[1][1].endswith('::is_empty') and core(c_[1][2][0]) == init)
        some = guard_sel(gc, lambda c_: c_ == ('present', ('next', init)))
        oks = set(gc.ok_exit_sids())
        per_iter = bool(some) and bool(cl) and not (gc.states_after_edges(edges(some), [e.node for e in cl]) & oks)
        rep.check(bool(nonempty) and gc.success_needs((), edges(nonempty)) and per_iter, 'C09.R2', 'constructor:clock-starts',
                  'successful construction sets the clock: initial_signers is guarded non-empty and every iteration over it that '
                  'leads to success writes the clock (a non-empty Vec yields at least one element)', entry_id(gc))
        md = [e for e in state_effects(gc) if e.kind == 'sw' and key_variant(e.key)[0] == 'MinimumRotationDelay']
        rep.check(len(md) == 1 and core(md[0].val) == gc.P(4) and gc.success_needs([md[0].node]), 'C09.R5', 'constructor:min-delay',
                  'MinimumRotationDelay is set from the constructor parameter', entry_id(gc))
    else:
        rep.floor('gateway constructor', 0, 1)
    require_overflow_checks(P, rep, 'C09.R1')
    n = 0
    for cn, en in P.all_entries():
        if cn != CN:
            continue
        ge = P.graph(cn, en)
        for e in state_effects(ge):
            if e.kind in ('sw', 'sr', 'supd') and key_variant(e.key)[0] in ('LastRotationTimestamp', 'MinimumRotationDelay'):
                n += 1
                v = key_variant(e.key)[0]
                allowed = ('rotate_signers', '__constructor') if v == 'LastRotationTimestamp' else ('__constructor',)
                rep.check((en in allowed or ('rotate_signers' in allowed and within_entry(ge, e, ['rotate_signers']))) and e.kind == 'sw', 'C09.R5', '%s:%s-writer' % (en, v), '%s written only in %s' % (v, '/'.join(allowed)), esite(ge, e))
                rep.check(e.cls == 'instance', 'C09.R5', '%s:%s-durable' % (en, v),
                          '%s lives in instance storage (a temporary entry expires and silently resets the clock / the limit)' % v, esite(ge, e), e.cls)
    rep.floor('clock / delay writers', n, 3)
