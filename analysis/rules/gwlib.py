"""Shared gateway facts: proof validation (signer-set lookup, retention window, signature loop, digest)."""
from rk import *


def signers_hash_of_proof(proof):
    """keccak(xdr(WeightedSigners{signers: [s.signer for s in proof.signers], threshold: proof.threshold, nonce: proof.nonce}))"""
    el = ('elem', ('field', 'signers', proof))
    return ('keccak', ('xdr', ('struct', 'WeightedSigners', (
        ('signers', ('vecmap', ('field', 'signer', el))),
        ('threshold', ('field', 'threshold', proof)),
        ('nonce', ('field', 'nonce', proof))))))


def is_epoch_of(t, H):
    t = core(t)
    return t[0] == 'sget' and t[1] == 'persistent' and key_variant(t[2])[0] == 'EpochBySignersHash' \
        and same(core(key_variant(t[2])[1][0]), H)


def checked(op, t):
    """t = checked `a op b` (overflow traps) -> (a, b) or None"""
    t = core(t)
    if t[0] == 'field' and t[1] == '0' and t[2][0] == 'bin' and t[2][1] == op + 'WithOverflow':
        return t[2][2], t[2][3]
    if t[0] == 'call' and ('checked_' + op.lower()) in t[1]:
        return t[2][0], t[2][1]
    return None


class ProofFacts:
    """facts establishing ProofOK(D, proof) in entry graph g"""

    def __init__(self, g, proof, D):
        self.g = g
        self.proof = proof
        self.D = D
        H = signers_hash_of_proof(proof)
        self.H = H
        self.lookup = guard_sel(g, lambda c: c[0] == 'present' and c[1][0] == 'skey' and c[1][1] == 'persistent'
                                and key_variant(c[1][2])[0] == 'EpochBySignersHash'
                                and same(core(key_variant(c[1][2])[1][0]), H))
        # the set installed at the CURRENT epoch has age 0 and is inside every retention window (retention is unsigned): an
        # `epoch(set) == current epoch` edge establishes the window without the subtraction
        self.retention = guard_sel(g, lambda c: self.is_retention(c) or self.is_current(c))
        el = ('elem', ('field', 'signers', proof))
        self.elem = el
        self.weight = ('field', 'weight', ('field', 'signer', el))
        self.threshold = guard_sel(g, lambda c: c[0] == 'cmp' and c[1] == 'le' and is_modulo_carry(c[2], ('field', 'threshold', proof))
                                   and self.is_acc(c[3]))
        self.verifies = [e for e in effects(g) if e.kind == 'sigverify']
        self.next_some = guard_sel(g, lambda c: c == ('present', ('next', ('field', 'signers', proof))))
        self.next_none = guard_sel(g, lambda c: c == ('absent', ('next', ('field', 'signers', proof))))

    def is_retention(self, c):
        # epoch - e <= retention
        if c[0] != 'cmp' or c[1] != 'le':
            return False
        if not is_sget(c[3], 'instance', 'PreviousSignerRetention'):
            return False
        ab = checked('Sub', c[2])
        if ab is None:
            return False
        return is_sget(ab[0], 'instance', 'Epoch') and is_epoch_of(ab[1], self.H)

    def is_current(self, c):
        if c[0] != 'cmp' or c[1] != 'eq':
            return False
        for a, b in ((c[2], c[3]), (c[3], c[2])):
            if is_sget(a, 'instance', 'Epoch') and is_epoch_of(b, self.H):
                return True
        return False

    def is_acc(self, t):
        """weight accumulator: checked sum, starting at 0, of elem.signer.weight added to the CARRIED sum"""
        ab = checked('Add', t)
        if ab is None:
            return False
        if core(ab[1]) != self.weight:
            return False
        carried = False
        for a in alts(ab[0]):
            a = core(a)
            if is_zero(a):
                continue
            if is_mu(a) or self.is_acc(a):
                carried = True
                continue
            return False
        return carried

    def acc_sites(self):
        """nodes where the accumulator is advanced (checked_add call or overflow assert)"""
        out = set()
        for gd in self.threshold:
            t = core(gd.cond[3])
            if t[0] == 'call' and len(t) > 3:
                out.add(tuple(t[3]))
        return out

    def digest_ok(self, msg):
        """msg = keccak(concat(SG(DomainSeparator), H, D))"""
        m = core(msg)
        if m[0] != 'keccak' or m[1][0] != 'concat':
            return False, 'digest is not keccak256 of a concatenation'
        parts = [core(x) for x in m[1][1]]
        # an empty Bytes::new() the parts are appended to contributes nothing
        parts = [x for x in parts if not (x[0] == 'call' and x[1].endswith('soroban_sdk::Bytes::new'))]
        if len(parts) != 3:
            return False, 'digest concatenates %d parts, expected 3' % len(parts)
        if not is_sget(parts[0], 'instance', 'DomainSeparator'):
            return False, 'first part is not the stored domain separator'
        if not same(parts[1], self.H):
            return False, 'second part is not the hash of the proof\'s signer set'
        if not same(parts[2], core(self.D)):
            return False, 'third part is not the data hash'
        return True, ''


def check_proof_ok(rep, rule, g, pf, sites, tag):
    """all `sites` (nodes) are must-guarded by the proof facts; reports under `rule`"""
    en = g.entry
    rep.floor('%s signer-set lookup guard' % en, len(pf.lookup), 1)
    rep.floor('%s retention guard' % en, len([x for x in pf.retention if pf.is_retention(x.cond)]), 1)
    rep.floor('%s threshold guard' % en, len(pf.threshold), 1)
    rep.floor('%s ed25519_verify sites' % en, len(pf.verifies), 1)
    for n, desc, st in sites:
        for name, gs in (('signer-set registered (EpochBySignersHash(hash of the proof\'s set) present)', pf.lookup),
                         ('retention window (epoch - set epoch <= retention)', pf.retention),
                         ('accumulated verified weight >= proof.threshold', pf.threshold)):
            ok, _, w = mg(g, [n], (), edges(gs)) if gs else (False, None, None)
            rep.check(ok, rule, '%s:%s:%s' % (en, tag(desc), name.split(' ')[0]), '%s is must-guarded by: %s' % (desc[:90], name), st, None, w)


def check_sig_loop(rep, rule, g, pf):
    en = g.entry
    for v in pf.verifies:
        ok, why = pf.digest_ok(v.msg)
        rep.check(ok, rule, '%s:digest' % en, 'signed digest = keccak256(domain separator || signer-set hash || data hash)', esite(g, v),
                  why or fmt(v.msg)[:300])
        rep.check(core(v.pk) == ('field', 'signer', ('field', 'signer', pf.elem)), rule, '%s:verify-key' % en,
                  'signature verified against the loop element\'s own public key', esite(g, v), fmt(v.pk))
        sg = core(v.sig)
        okp = sg[0] == 'payload' and sg[1] == 'Signed' and core(sg[3]) == ('field', 'signature', pf.elem)
        rep.check(okp, rule, '%s:verify-sig' % en, 'the verified signature is the loop element\'s Signed payload', esite(g, v), fmt(v.sig))
    accs = pf.acc_sites()
    rep.floor('%s weight accumulation sites' % en, len(accs), 1)
    # each accumulation step happens only after a verify in the same iteration
    after = g.nodes_of(g.states_after_edges(edges(pf.next_some), [v.node for v in pf.verifies]))
    for a in accs:
        rep.check(a not in after, rule, '%s:weight-needs-verify' % en,
                  'a signer\'s weight is added only after ed25519_verify in the same iteration', site(g, g.ctxs[a[0]], a[1]))


CTOR_KEYS = ('Epoch', 'PreviousSignerRetention', 'DomainSeparator', 'MinimumRotationDelay', 'Interfaces_Owner', 'Interfaces_Operator')


def completeness(rep, rule, g, pf, extra=()):
    """structural half of 'every honest proof with sufficient weight is accepted': the only input-dependent reasons
    for which the entry refuses a call, and the only arithmetic traps on its accept path, are the expected ones."""
    en = g.entry

    def allowed(c):
        if c[0] == 'absent' and c[1][0] == 'skey':
            v = key_variant(c[1][2])[0]
            if v in CTOR_KEYS:
                return 'constructor-initialised slot'
            if v == 'EpochBySignersHash' and same(core(key_variant(c[1][2])[1][0]), pf.H):
                return 'unknown signer set'
        if c[0] == 'cmp' and c[1] == 'lt' and pf.is_retention(('cmp', 'le', c[3], c[2])):
            return 'outside the retention window'
        if c == ('absent', ('next', ('field', 'signers', pf.proof))):
            return 'signers exhausted before the threshold was reached'
        if c[0] == 'absent' and core(c[1])[0] == 'call' and 'checked_add' in core(c[1])[1] and pf.is_acc(c[1]):
            return 'weight sum overflow'
        for name, pred in extra:
            if pred(c):
                return name
        return None
    n = 0
    for gd in rejecting_edges(g):
        n += 1
        why = allowed(gd.cond)
        rep.check(why is not None, rule, '%s:unexpected-rejection:%s' % (en, fmt(gd.cond)[:60]),
                  'every input-dependent refusal on the accept path is an expected one (%s)' % (why or 'UNEXPECTED: an honest, sufficiently signed proof may be refused here'),
                  site(g, gd.ctx, gd.bb), fmt(gd.cond)[:240])
    # arithmetic traps (overflow asserts) on paths that can still succeed
    oks = set(g.ok_exit_sids())
    for gd in guard_edges(g):
        if gd.label != 'ok':
            continue
        if not (g.states_after_edges([gd.edge]) & oks):
            continue
        t = gd.ctx.body['blocks'][gd.bb]['term']
        msg = t.get('msg', '')
        okk = False
        d = gd.D
        if d[0] == 'const' and d[1] == 'false' and t.get('exp') is False:
            continue      # an overflow check on two constants that the analysis decided (`2 * HASH_LEN`): it cannot fire
        if d[0] == 'field' and d[2][0] == 'bin':
            op, a, b = d[2][1], d[2][2], d[2][3]
            if op == 'SubWithOverflow' and is_sget(a, 'instance', 'Epoch') and is_epoch_of(b, pf.H):
                okk = 'epoch - set epoch (the set epoch never exceeds the current epoch)'
            from norm import _is_counter
            if op == 'AddWithOverflow' and _is_counter(a) and const_int(b) == 1:
                okk = 'loop index + 1 (the index is below the length of a vector)'
            for name, pred in extra:
                if pred(('trap', op, a, b)):
                    okk = name
        n += 1
        rep.check(bool(okk), rule, '%s:unexpected-trap:%s' % (en, msg[:40]),
                  'every arithmetic trap on the accept path is an expected one (%s)' % (okk or 'UNEXPECTED: an honest proof may trap here'),
                  site(g, gd.ctx, gd.bb), fmt(d)[:240])
    rep.floor('%s refusal reasons inventoried' % en, n, 5)
