"""C17 — only current operators act via the operators contract; calls forward intact."""
from rk import *

EXPLAIN = ('operators contract: (R1) the forwarded invoke is must-guarded by require_auth(operator) and by presence of '
           'Operators(operator) in instance storage — same parameter term; (R2) the invoke carries (contract, func, args) = '
           'parameters 2,3,4 unchanged, is the trapping variant, happens exactly once on every success path and its result '
           'is the Ok payload unchanged; (R3) Operators(_) is set only in add_operator under owner auth and an absence '
           'guard on the same key, removed only in remove_operator under owner auth and a presence guard; '
           'is_operator returns presence of Operators(account); who-may-forward: every call the contract makes to another contract, in any entry, '
           'is behind require_auth(A) and Operators(A) present for one address A.')
NOT_DECIDED = 'behaviour of the target contract; host rollback on a trapping target (T1).'
ASSUME = ['T1', 'T2', 'T3', 'T6']
CN = 'axelar_operators'


def opkey(c, kind, who):
    return c[0] == kind and c[1][0] == 'skey' and c[1][1] == 'instance' and key_variant(c[1][2])[0] == 'Operators' \
        and core(key_variant(c[1][2])[1][0]) == who


def check(P, rep):
    c = P.crates[CN]
    for en in ('execute', 'add_operator', 'remove_operator', 'is_operator'):
        rep.floor('operators entry %s' % en, int(en in c.entries), 1)
    if 'execute' in c.entries:
        g = P.graph(CN, 'execute')
        op, contract, func, args = g.P(1), g.P(2), g.P(3), g.P(4)
        inv = [e for e in state_effects(g) if e.kind in ('invoke', 'xcall')]
        rep.floor('operators::execute forward sites', len(inv), 1)
        rep.check(len(inv) == 1, 'C17.R2', 'execute:one-forward', 'exactly one forwarding call site', entry_id(g))
        an = auth_nodes(g, lambda s: core(s) == op)
        member = guard_sel(g, lambda c_: opkey(c_, 'present', op))
        rep.floor('operators::execute membership guard', len(member), 1)
        for e in inv:
            ok, _, w = mg(g, [e.node], an)
            rep.check(ok, 'C17.R1', 'execute:auth', 'forward must-guarded by require_auth(operator)', esite(g, e), None, w)
            ok, _, w = mg(g, [e.node], (), edges(member))
            rep.check(ok, 'C17.R1', 'execute:member', 'forward must-guarded by Operators(operator) present', esite(g, e), None, w)
            if e.kind == 'invoke':
                rep.check(core(e.target) == contract and core(e.func) == func and core(e.args) == args, 'C17.R2',
                          'execute:identity', 'forward carries (contract, func, args) parameters unchanged', esite(g, e), e.describe())
                rep.check(not e.try_, 'C17.R2', 'execute:trapping', 'forward uses the trapping invoke (failure aborts the call)', esite(g, e))
            else:
                rep.bad('C17.R2', 'execute:identity', 'forward is not a plain invoke_contract', esite(g, e), e.describe())
            rep.check(e.node not in succ_reachable(g, [e.node]), 'C17.R2', 'execute:once', 'forward cannot repeat', esite(g, e))
        ok = g.success_needs([e.node for e in inv])
        rep.check(ok, 'C17.R2', 'execute:forward-on-success', 'every success exit is preceded by the forward', entry_id(g))
        # return value: Ok(payload) = result of the invoke
        root = g.ctxs[0]
        rets = []
        for bi, b in enumerate(root.body['blocks']):
            if not b['cleanup'] and b['term']['t'] == 'return' and (0, bi) in g.node_states:
                rets.append(norm(g.term_local(root, bi, len(b['st']), 0)))
        okvals = []
        for r in rets:
            for a in alts(r):
                if a[0] == 'variant' and a[2] == 'Ok':
                    okvals.append(a[3][0])
        good = bool(okvals) and all(x[0] == 'call' and 'invoke_contract' in x[1] for x in okvals)
        rep.check(good, 'C17.R2', 'execute:return', 'Ok payload is the forwarded call\'s result unchanged', entry_id(g),
                  '; '.join(fmt(x) for x in okvals)[:300])
        others = [e for e in state_effects(g) if e.kind not in ('invoke',)]
        rep.check(not others, 'C17.R2', 'execute:no-other-effects', 'execute has no effect besides the forward', entry_id(g),
                  '; '.join(x.describe() for x in others)[:300])
    # who-may-forward: the operators contract calls out only from `execute` (a private helper exported as an entry point, a second
    # forwarding entry without the operator checks, ... would let anyone act with the contract's identity)
    for cn, en in P.all_entries():
        if cn != CN or en == 'execute':
            continue
        g = P.graph(cn, en)
        for e in state_effects(g):
            if e.kind in ('invoke', 'xcall', 'deploy', 'sdk') and not within_entry(g, e, ['execute']):
                # another forwarding entry (a batch variant) is fine when EACH call it makes is behind the authorisation of some address
                # and that same address's membership in the operator set
                ok = False
                for who in set(core(a.subject) for a in auths(g)):
                    an = auth_nodes(g, lambda s_, who=who: core(s_) == who)
                    member = guard_sel(g, lambda c_, who=who: opkey(c_, 'present', who))
                    if an and member and mg(g, [e.node], an)[0] and mg(g, [e.node], (), edges(member))[0]:
                        ok = True
                rep.check(ok, 'C17.R1', '%s:forward-outside-execute' % en, 'every call the operators contract makes to another contract is behind '
                          'require_auth(A) and Operators(A) present for one address A', esite(g, e), e.describe()[:200])
    storage_classes(P, rep, 'C17.R3', CN, {'Operators': 'instance', 'Interfaces_Owner': 'instance'})
    # R3 who-may-write Operators(_)
    nw = 0
    for cn, en in P.all_entries():
        if cn != CN:
            continue
        g = P.graph(cn, en)
        for e in state_effects(g):
            if e.kind not in ('sw', 'sr', 'supd') or key_variant(e.key)[0] != 'Operators':
                continue
            nw += 1
            who = core(key_variant(e.key)[1][0])
            kindname = 'set' if e.kind == 'sw' else 'remove'
            # (which entry does it is not behaviour: a batch variant meets the same per-write obligations - owner auth and the
            # absence / presence test on the same key - as add_operator / remove_operator)
            if en in ('add_operator', 'remove_operator'):
                rep.check(en == ('add_operator' if e.kind == 'sw' else 'remove_operator') and who == g.P(1), 'C17.R3',
                          '%s:%s-where' % (en, kindname), '%s %ss exactly its account parameter' % (en, kindname), esite(g, e), e.describe())
            own = auth_nodes(g, stored('Interfaces_Owner'))
            ok, _, w = mg(g, [e.node], own)
            rep.check(ok, 'C17.R3', '%s:%s-owner' % (en, kindname), 'operator-set change must-guarded by owner auth', esite(g, e), None, w)
            want = 'absent' if e.kind == 'sw' else 'present'
            gd = guard_sel(g, lambda c_: opkey(c_, want, who))
            ok, _, w = mg(g, [e.node], (), edges(gd)) if gd else (False, None, None)
            rep.check(ok, 'C17.R3', '%s:%s-%s' % (en, kindname, want), 'operator-set %s must-guarded by Operators(account) %s' % (kindname, want),
                      esite(g, e), None, w)
    rep.floor('Operators(_) writers', nw, 2)
    if 'is_operator' in c.entries:
        g = P.graph(CN, 'is_operator')
        root = g.ctxs[0]
        vals = []
        for bi, b in enumerate(root.body['blocks']):
            if not b['cleanup'] and b['term']['t'] == 'return' and (0, bi) in g.node_states:
                vals.append(norm(g.term_local(root, bi, len(b['st']), 0)))
        good = bool(vals) and all(v[0] == 'shas' and v[1] == 'instance' and key_variant(v[2])[0] == 'Operators'
                                  and core(key_variant(v[2])[1][0]) == g.P(1) for v in vals)
        good = good or presence_query(g, 'instance', 'Operators', g.P(1))
        rep.check(good, 'C17.R3', 'is_operator:returns-presence', 'is_operator returns presence of Operators(account)', entry_id(g),
                  '; '.join(fmt(v) for v in vals))
