"""C12 — token balances, allowances and supply follow the standard token rules."""
from rk import *
from rules.gwlib import checked

EXPLAIN = ('interchain token (structural, necessary clauses): (R1) every balance/allowance write of approve, transfer, '
           'transfer_from, burn, burn_from, mint_from, mint is must-guarded by amount >= 0; (R2) a debit writes checked '
           'old - amount of the SAME address under the guard old >= amount; a credit is checked old-or-0 + amount; transfer* '
           'debits `from` and credits `to` with the same amount term, mint* only credits, burn* only debits, and every success '
           'exit is preceded by them; (R3) who-may-write: Balance(_) only from those entries, Allowance(_) only from approve / '
           'transfer_from / burn_from, metadata only by the constructor; (R4) delegated spends rewrite the allowance to checked '
           'allowance - amount with the stored expiration, on every success path with amount > 0; (R5) expiry relations: the '
           'stored allowance amount flows to the allowance() result, to the sufficiency guard and to the rewritten value only '
           'through a definition guarded by sequence <= expiration (usable through the expiration ledger, worthless after); '
           'approve refuses exactly when amount > 0 and expiration < sequence; (R6) each mutating entry emits exactly one '
           'standard token event naming the entry\'s true parties before every success exit; set_admin names the owner read '
           'BEFORE the owner slot is overwritten; (R7) only current minters can mint: every mint credit is must-guarded by the stored Minter(acting minter) '
           'entry and that minter\'s authorisation (the owner-mint entry acts as the stored owner).')
NOT_DECIDED = ('the history invariant (sum of balances = minted - burned) is decided only through its inductive step: R2 + the read-modify-write '
               'freshness rule show that every successful transfer debits and credits the same amount (also when from == to), mint only credits, burn only '
               'debits, and R3 that nothing else writes a balance; the induction itself and TTL behaviour of temporary storage are not mechanised.')
ASSUME = ['T1', 'T2', 'T3', 'T6']
CN = 'interchain_token'

# entry -> (amount param, debit addr param or None, credit addr param or None, event name, event args as param indexes)
SPEC = {
    'transfer': dict(amount=3, debit=1, credit=2, event='transfer', ev=[1, 2, 3]),
    'transfer_from': dict(amount=4, debit=2, credit=3, event='transfer', ev=[2, 3, 4], spender=1),
    'burn': dict(amount=2, debit=1, credit=None, event='burn', ev=[1, 2]),
    'burn_from': dict(amount=3, debit=2, credit=None, event='burn', ev=[2, 3], spender=1),
    'mint_from': dict(amount=3, debit=None, credit=2, event='mint', ev=[1, 2, 3]),
    'mint': dict(amount=2, debit=None, credit=1, event='mint', ev=['owner', 1, 2]),
    'approve': dict(amount=3, debit=None, credit=None, event='approve', ev=[1, 2, 3, 4]),
}


def bal_of(t, addr):
    """t = stored balance of addr, defaulting to 0"""
    reads = 0
    for a in alts(t):
        a = core(a)
        if a[0] == 'sget' and a[1] == 'persistent' and key_variant(a[2])[0] == 'Balance' and core(key_variant(a[2])[1][0]) == addr:
            reads += 1
        elif const_int(a) == 0 or (a[0] == 'call' and a[1].endswith('Default>::default')):
            continue
        elif a[0] == 'leafarg':
            reads += 1       # the old value handed to a storage-update closure
        else:
            return False
    return reads >= 1


def allow_key(t):
    v, args = key_variant(t)
    if v != 'Allowance' or not args:
        return None
    f = fields_of(core(args[0]))
    if not f:
        return None
    return (core(f.get('from')), core(f.get('spender')))


def stored_allow_field(t, fld, key):
    """t is (possibly defaulted-to-0) field `fld` of the stored allowance of key"""
    seen = False
    for a in alts(t):
        a = core(a)
        if const_int(a) == 0:
            continue
        if a[0] == 'field' and a[1] == fld and core(a[2])[0] == 'sget' and core(a[2])[1] == 'temporary' and allow_key(core(a[2])[2]) == key:
            seen = True
            continue
        return False
    return seen


def is_stored_allow(t):
    t = core(t)
    if t[0] == 'field':
        t = core(t[2])
    return t[0] == 'sget' and t[1] == 'temporary' and key_variant(t[2])[0] == 'Allowance'


def expiry_valid_edges(g):
    """edges on which sequence <= stored expiration holds"""
    def pred(c):
        if c[0] != 'cmp' or c[1] != 'le' or core(c[2]) != ('seq',):
            return False
        r = core(c[3])
        return r[0] == 'field' and r[1] == 'expiration_ledger' and is_stored_allow(r[2])
    return guard_sel(g, pred)


def gvf(rep, g, rule, key, what, chains, valid, where):
    """guarded value flow: every chain from the stored allowance passes a definition guarded by `valid`"""
    n = 0
    for nodes, leaf in chains:
        if not is_stored_allow(leaf):
            continue
        n += 1
        ok = False
        for nd in nodes:
            if valid and g.must_guard([nd], (), edges(valid))[0]:
                ok = True
                break
        rep.check(ok, rule, key, what, where, 'flow: ' + ' <- '.join('ctx%d.bb%d' % x for x in nodes)[:200])
    return n


def generic_balance_entry(rep, g, en):
    """an entry point outside the table that writes balances (a batch variant added later): the same obligations, phrased on the
    amount each write itself uses.  Returns True when every obligation holds (the entry then counts as a legitimate balance writer)."""
    effs = state_effects(g)
    bw = [e for e in effs if e.kind in ('sw', 'supd') and key_variant(e.key)[0] == 'Balance']
    ok_all = True

    def req(ok, key, what, e, detail=None):
        nonlocal ok_all
        ok_all = ok_all and bool(ok)
        rep.check(ok, 'C12.R3', '%s:generic:%s' % (en, key), what, esite(g, e) if e is not None else entry_id(g), detail)
    moves = []
    for e in bw:
        addr = core(key_variant(e.key)[1][0])
        val = e.val if e.kind == 'sw' else ('undef',)
        if e.kind == 'supd':
            ch = e.ctx.children.get(e.bb)
            val = norm(g.return_term(ch)) if ch is not None else ('undef',)
        kind = None
        for k_, op in (('debit', 'Sub'), ('credit', 'Add')):
            ab = checked(op, val)
            if ab is not None and bal_of(ab[0], addr):
                kind, amt = k_, core(ab[1])
        if e.kind == 'sr' or kind is None:
            req(False, 'odd-balance-write', 'balance write is checked old - amount or checked old + amount of the same address', e, e.describe()[:160])
            continue
        moves.append((e, kind, addr, amt))
    auths_ = auths(g)
    for e, kind, addr, amt in moves:
        nonneg = guard_sel(g, lambda c_: c_[0] == 'cmp' and c_[1] == 'le' and const_int(core(c_[2])) == 0 and core(c_[3]) == amt)
        req(bool(nonneg) and mg(g, [e.node], (), edges(nonneg))[0], 'nonneg', 'balance write must-guarded by 0 <= the amount it moves', e, fmt(amt)[:80])
        if kind == 'debit':
            enough = guard_sel(g, lambda c_: c_[0] == 'cmp' and c_[1] == 'le' and core(c_[2]) == amt and bal_of(c_[3], addr))
            req(bool(enough) and mg(g, [e.node], (), edges(enough))[0], 'debit-sufficient', 'debit must-guarded by balance(holder) >= amount', e)
            an = [a.node for a in auths_ if core(a.subject) == addr and not a.for_args]
            req(bool(an) and mg(g, [e.node], an)[0], 'debit-auth', 'debit must-guarded by require_auth(holder)', e)
        else:
            paired = [x.node for x, k2, _, a2 in moves if k2 == 'debit' and a2 == amt]
            okc = bool(paired) and mg(g, [e.node], paired)[0]
            if not okc:
                for a in auths_:
                    if a.for_args:
                        continue
                    m = core(a.subject)
                    member = guard_sel(g, lambda c_: c_[0] == 'present' and c_[1][0] == 'skey' and c_[1][1] == 'instance'
                                       and key_variant(c_[1][2])[0] == 'Minter' and core(key_variant(c_[1][2])[1][0]) == m)
                    if member and mg(g, [e.node], [a.node])[0] and mg(g, [e.node], (), edges(member))[0]:
                        okc = True
            req(okc, 'credit-source', 'credit is preceded by a debit of the same amount, or is a mint by an authorised current minter', e)
        evs = [x for x in effs if x.kind == 'tokev' and any(core(a_) == addr for a_ in x.args) and any(core(a_) == amt for a_ in x.args)]
        req(bool(evs), 'event', 'a token event names the holder and the amount of this balance change', e)
    for variant in ('Balance', 'Allowance'):
        for w, w2, r in stale_reads(g, variant):
            req(False, 'stale-read', 'no balance write uses a read that precedes another balance write (aliasing)', w)
    others = [e for e in effs if e not in bw and e.kind != 'tokev' and not (e.kind in ('sw', 'supd') and key_variant(e.key)[0] not in ('Balance', 'Allowance', 'Minter', 'Interfaces_Owner'))]
    req(not others, 'no-other-effects', 'no other protected state change in this entry', None, '; '.join(x.describe() for x in others)[:200])
    return ok_all and bool(moves)


def check(P, rep):
    c = P.crates[CN]
    nbal = nall = 0
    for en, sp in SPEC.items():
        if en not in c.entries:
            rep.floor('token entry %s' % en, 0, 1)
            continue
        g = P.graph(CN, en)
        amount = g.P(sp['amount'])
        effs = state_effects(g)
        bw = [e for e in effs if e.kind in ('sw', 'supd') and key_variant(e.key)[0] == 'Balance']
        aw = [e for e in effs if e.kind in ('sw', 'supd') and key_variant(e.key)[0] == 'Allowance']
        nonneg = guard_sel(g, lambda c_: c_[0] == 'cmp' and c_[1] == 'le' and const_int(core(c_[2])) == 0 and core(c_[3]) == amount)
        rep.floor('%s amount>=0 guard' % en, len(nonneg), 1)
        for e in bw + aw:
            ok, _, w = mg(g, [e.node], (), edges(nonneg)) if nonneg else (False, None, None)
            rep.check(ok, 'C12.R1', '%s:%s:nonneg' % (en, key_variant(e.key)[0]), 'write must-guarded by amount >= 0: ' + e.describe()[:70], esite(g, e), None, w)
        # R2 debit / credit
        debits, credits, odd = [], [], []
        for e in bw:
            addr = core(key_variant(e.key)[1][0])
            if e.kind == 'sw':
                ab = checked('Sub', e.val)
                if ab is not None and bal_of(ab[0], addr) and core(ab[1]) == amount:
                    debits.append((e, addr))
                    continue
                ab = checked('Add', e.val)
                if ab is not None and bal_of(ab[0], addr) and core(ab[1]) == amount:
                    credits.append((e, addr))
                    continue
                odd.append(e)
            else:
                ch = e.ctx.children.get(e.bb)
                rt = norm(g.return_term(ch)) if ch is not None else ('undef',)
                ab = checked('Add', rt)
                if ab is not None and bal_of(ab[0], addr) and core(ab[1]) == amount:
                    credits.append((e, addr))
                else:
                    odd.append(e)
        for e in odd:
            rep.bad('C12.R2', '%s:odd-balance-write' % en, 'balance write is neither checked old-amount nor checked old+amount of the same address',
                    esite(g, e), e.describe()[:200])
        nbal += len(bw)
        want_d = [g.P(sp['debit'])] if sp['debit'] else []
        want_c = [g.P(sp['credit'])] if sp['credit'] else []
        rep.check([a for _, a in debits] == want_d, 'C12.R2', '%s:debits' % en,
                  'debits exactly: %s' % (', '.join(fmt(x) for x in want_d) or 'nobody'), entry_id(g), ', '.join(fmt(a) for _, a in debits))
        rep.check([a for _, a in credits] == want_c, 'C12.R2', '%s:credits' % en,
                  'credits exactly: %s' % (', '.join(fmt(x) for x in want_c) or 'nobody'), entry_id(g), ', '.join(fmt(a) for _, a in credits))
        for e, addr in debits:
            enough = guard_sel(g, lambda c_: c_[0] == 'cmp' and c_[1] == 'le' and core(c_[2]) == amount and bal_of(c_[3], addr))
            ok, _, w = mg(g, [e.node], (), edges(enough)) if enough else (False, None, None)
            rep.check(ok, 'C12.R2', '%s:debit-sufficient' % en, 'debit must-guarded by balance(from) >= amount', esite(g, e), None, w)
        for e, _ in debits + credits:
            rep.check(g.success_needs([e.node]), 'C12.R2', '%s:%s-on-success' % (en, key_variant(e.key)[0] + ('-debit' if (e, _) in debits else '-credit')),
                      'every success exit is preceded by this balance change', esite(g, e))
            rep.check(e.node not in succ_reachable(g, [e.node]), 'C12.R2', '%s:balance-change-once' % en, 'balance change cannot repeat', esite(g, e))
        # read-modify-write freshness (aliasing: from == to, or the same key touched twice)
        for variant in ('Balance', 'Allowance'):
            st = stale_reads(g, variant)
            for w, w2, r in st:
                rep.bad('C12.R2', '%s:%s:stale-read' % (en, variant),
                        'a %s write stores a value computed from a read that precedes another %s write (if the two keys alias, e.g. from == to, the '
                        'earlier write is lost)' % (variant, variant), esite(g, w), 'stale read at ctx%d.bb%d; intervening write: %s' % (r[0], r[1], w2.describe()[:120]))
            if not st:
                rep.ok('C12.R2', '%s: no %s write uses a read that precedes another %s write' % (en, variant, variant), entry_id(g))
        # R4 delegated spend
        valid = expiry_valid_edges(g)
        if 'spender' in sp:
            spender, frm = g.P(sp['spender']), g.P(sp['debit'])
            key = (frm, spender)
            rew = [e for e in aw if allow_key(e.key) == key]
            rep.floor('%s allowance rewrite' % en, len(rew), 1)
            rep.check(len(aw) == len(rew), 'C12.R4', '%s:allowance-key' % en, 'only the allowance (from, spender) is rewritten', entry_id(g))
            for e in rew:
                f = fields_of(core(e.val)) or {}
                ab = checked('Sub', f.get('amount', ('undef',)))
                okv = ab is not None and stored_allow_field(ab[0], 'amount', key) and core(ab[1]) == amount
                oke = stored_allow_field(f.get('expiration_ledger', ('undef',)), 'expiration_ledger', key)
                rep.check(okv and oke, 'C12.R4', '%s:allowance-rewrite' % en, 'allowance := checked allowance - amount, expiration unchanged',
                          esite(g, e), fmt(e.val)[:300])
            zero_amt = guard_sel(g, lambda c_: c_[0] == 'cmp' and c_[1] == 'le' and core(c_[2]) == amount and const_int(core(c_[3])) == 0)
            rep.check(bool(rew) and g.success_needs([e.node for e in rew], edges(zero_amt)), 'C12.R4', '%s:allowance-spent' % en,
                      'with amount > 0 every success exit is preceded by the allowance rewrite', entry_id(g))
            # allowance is spent before the balance moves
            for e, _ in debits:
                ok, _, w = mg(g, [e.node], [x.node for x in rew], edges(zero_amt))
                rep.check(ok, 'C12.R4', '%s:allowance-before-balance' % en, 'the allowance is spent before the balance is debited', esite(g, e), None, w)
            # R5a flows into the sufficiency guard and into the rewritten amount
            rep.floor('%s expiry-valid edges' % en, len(valid), 1)
            nflow = 0
            for gd in guard_edges(g):
                if gd.cond[0] == 'cmp' and core(gd.cond[2]) == amount and any(is_stored_allow(x) for x in alts(gd.cond[3])) and gd.cond[1] == 'le':
                    # follow the tested value back through the comparison (wherever it was computed: in this block, in the caller of a
                    # `require(cond)` helper, through a local) to the stored allowance it compares
                    t = gd.ctx.body['blocks'][gd.bb]['term']
                    nflow += gvf(rep, g, 'C12.R5', '%s:guard-uses-valid-allowance' % en,
                                 'the allowance compared with amount is usable (sequence <= expiration) when it is the stored amount',
                                 g.operand_chains(gd.ctx, gd.bb, t['d']) if t['t'] == 'switch' else [], valid, site(g, gd.ctx, gd.bb))
            for e in rew:
                t = e.ctx.body['blocks'][e.bb]['term']
                nflow += gvf(rep, g, 'C12.R5', '%s:rewrite-uses-valid-allowance' % en,
                             'the rewritten allowance derives from a usable (unexpired) stored allowance',
                             g.def_chains(e.ctx, e.bb, len(e.ctx.body['blocks'][e.bb]['st']),
                                          {'l': t['args'][2]['pl']['l'], 'p': list(t['args'][2]['pl'].get('p', [])) + ['*', {'f': 0, 'n': 'amount'}]}),
                             valid, esite(g, e))
            rep.floor('%s stored-allowance value flows checked' % en, nflow, 2)
        nall += len(aw)
        # R6 events
        evs = [e for e in effs if e.kind == 'tokev']
        rep.check(len(evs) == 1, 'C12.R6', '%s:one-event' % en, 'exactly one token event site (found %d)' % len(evs), entry_id(g))
        for e in evs:
            want = []
            for x in sp['ev']:
                want.append('OWNER' if x == 'owner' else g.P(x))
            got = [core(a) for a in e.args]
            okargs = len(got) == len(want) and all((is_sget(a, 'instance', 'Interfaces_Owner') if w == 'OWNER' else a == w) for a, w in zip(got, want))
            rep.check(e.name == sp['event'] and okargs, 'C12.R6', '%s:event-parties' % en,
                      'token event %s names the entry\'s true parties and amount' % sp['event'], esite(g, e), e.describe()[:200])
            rep.check(g.success_needs([e.node]) and e.node not in succ_reachable(g, [e.node]), 'C12.R6', '%s:event-on-success' % en,
                      'the event is emitted exactly once before every success exit', esite(g, e))
        others = [e for e in effs if e not in bw and e not in aw and e not in evs]
        rep.check(not others, 'C12.R3', '%s:no-other-effects' % en, 'no other state change in this entry', entry_id(g), '; '.join(x.describe() for x in others)[:200])
    # R7 only current minters can mint: every credit of mint / mint_from is guarded by stored membership of the acting minter and its auth
    for en in ('mint_from', 'mint'):
        if en not in c.entries:
            continue
        g = P.graph(CN, en)
        credits = [e for e in state_effects(g) if e.kind in ('sw', 'supd') and key_variant(e.key)[0] == 'Balance']
        if en == 'mint_from':
            who = lambda t: core(t) == g.P(1)
        else:
            who = lambda t: is_sget(t, 'instance', 'Interfaces_Owner')
        member = guard_sel(g, lambda c_: c_[0] == 'present' and c_[1][0] == 'skey' and c_[1][1] == 'instance' and key_variant(c_[1][2])[0] == 'Minter'
                           and who(key_variant(c_[1][2])[1][0]))
        rep.floor('%s minter-membership guard' % en, len(member), 1)
        an = auth_nodes(g, who)
        for e in credits:
            ok, _, w = mg(g, [e.node], (), edges(member)) if member else (False, None, witness(g, e.node))
            rep.check(ok, 'C12.R7', '%s:minter-member' % en, 'the mint credit is must-guarded by stored Minter(acting minter) present (only current minters can mint)',
                      esite(g, e), None, w)
            ok, _, w = mg(g, [e.node], an)
            rep.check(ok, 'C12.R7', '%s:minter-auth' % en, 'the mint credit is must-guarded by the acting minter\'s require_auth', esite(g, e), None, w)
    # approve: write shape + expiry precondition
    if 'approve' in c.entries:
        g = P.graph(CN, 'approve')
        frm, spn, amount, exp = g.P(1), g.P(2), g.P(3), g.P(4)
        aw = [e for e in state_effects(g) if e.kind == 'sw' and key_variant(e.key)[0] == 'Allowance']
        rep.floor('approve allowance write', len(aw), 1)
        pass_edges = guard_sel(g, lambda c_: (c_[0] == 'cmp' and c_[1] == 'le' and core(c_[2]) == amount and const_int(core(c_[3])) == 0) or
                               (c_[0] == 'cmp' and c_[1] == 'le' and core(c_[2]) == ('seq',) and core(c_[3]) == exp))
        refuse = guard_sel(g, lambda c_: c_[0] == 'cmp' and c_[1] == 'lt' and core(c_[2]) == exp and core(c_[3]) == ('seq',))
        rep.floor('approve expiry precondition (expiration < sequence)', len(refuse), 1)
        pos = guard_sel(g, lambda c_: c_[0] == 'cmp' and c_[1] == 'lt' and const_int(core(c_[2])) == 0 and core(c_[3]) == amount)
        for e in aw:
            f = fields_of(core(e.val)) or {}
            rep.check(allow_key(e.key) == (frm, spn) and core(f.get('amount', ('u',))) == amount and core(f.get('expiration_ledger', ('u',))) == exp,
                      'C12.R4', 'approve:write', 'approve stores {amount, expiration} under (from, spender)', esite(g, e), e.describe()[:200])
            ok, _, w = mg(g, [e.node], (), edges(pass_edges)) if pass_edges else (False, None, None)
            rep.check(ok, 'C12.R5', 'approve:expiry-precondition', 'the write is must-guarded by amount <= 0 OR sequence <= expiration', esite(g, e), None, w)
            rep.check(g.success_needs([e.node]), 'C12.R4', 'approve:write-on-success', 'every success exit is preceded by the allowance write', esite(g, e))
        # refused ONLY then: the refusal (the trap behind the expiry test) is reachable only with amount > 0, so approve(0, past ledger)
        # - the standard way to revoke an allowance - is not refused
        for gd in refuse:
            # no failing run takes the refusing edge without ever passing `0 < amount` (before it - short-circuit - or after it)
            no_pos = g.reach(None, (), edges(pos))
            starts = []
            for sid in g.node_states.get((gd.ctx.id, gd.bb), []):
                if sid in no_pos:
                    starts.extend(d for d, lab in g.succ[sid] if lab == gd.label)
            after = g.reach(starts, (), edges(pos)) if starts else set()
            fails = set(sid for sid, kind, _ in g.exits if kind != 'ok')
            okp = bool(pos) and not (after & fails)
            rep.check(okp, 'C12.R5', 'approve:refused-only-if-positive', 'the expiry refusal is reachable only with amount > 0 (revoking with amount 0 and a past '
                      'expiration stays possible)', site(g, gd.ctx, gd.bb))
        # refused exactly then: the refusing edge leads to no success exit
        oks = set(g.ok_exit_sids())
        nonpos = guard_sel(g, lambda c_: c_[0] == 'cmp' and c_[1] == 'le' and core(c_[2]) == amount and const_int(core(c_[3])) == 0)
        no_nonpos = g.reach(None, (), edges(nonpos))
        for gd in refuse:
            # runs that take an `expiration < sequence` edge and never an `amount <= 0` edge (before or after it) cannot succeed; a second
            # test of the same comparison that only decides the TTL extension for amount <= 0 is not a refusal site
            starts = []
            for sid in g.node_states.get((gd.ctx.id, gd.bb), []):
                if sid in no_nonpos:
                    starts.extend(d for d, lab in g.succ[sid] if lab == gd.label)
            after = g.reach(starts, (), edges(nonpos)) if starts else set()
            rep.check(not (after & oks), 'C12.R5', 'approve:expired-refused', 'amount > 0 with expiration < sequence cannot succeed', site(g, gd.ctx, gd.bb))
    # allowance(): result flows
    if 'allowance' in c.entries:
        g = P.graph(CN, 'allowance')
        valid = expiry_valid_edges(g)
        rep.floor('allowance() expiry-valid edges', len(valid), 1)
        root = g.ctxs[0]
        n = 0
        for bi, b in enumerate(root.body['blocks']):
            if not b['cleanup'] and b['term']['t'] == 'return' and (0, bi) in g.node_states:
                n += gvf(rep, g, 'C12.R5', 'allowance:result-valid', 'allowance() reports the stored amount only while sequence <= expiration',
                         g.def_chains(root, bi, len(b['st']), 0), valid, entry_id(g))
                rt = norm(g.term_local(root, bi, len(b['st']), 0))
                rep.check(stored_allow_field(rt, 'amount', (g.P(1), g.P(2))), 'C12.R5', 'allowance:result-term',
                          'allowance() returns the stored amount of (from, spender) or 0', entry_id(g), fmt(rt)[:200])
        rep.floor('allowance() stored-amount flows', n, 1)
        rep.check(not state_effects(g), 'C12.R3', 'allowance:pure', 'allowance() changes nothing', entry_id(g))
    else:
        rep.floor('token entry allowance', 0, 1)
    if 'balance' in c.entries:
        g = P.graph(CN, 'balance')
        root = g.ctxs[0]
        for bi, b in enumerate(root.body['blocks']):
            if not b['cleanup'] and b['term']['t'] == 'return' and (0, bi) in g.node_states:
                rt = norm(g.term_local(root, bi, len(b['st']), 0))
                rep.check(bal_of(rt, g.P(1)), 'C12.R3', 'balance:result-term', 'balance() returns the stored balance of id or 0', entry_id(g), fmt(rt)[:200])
        rep.check(not state_effects(g), 'C12.R3', 'balance:pure', 'balance() changes nothing', entry_id(g))
    check_ttl_extensions(P, rep, 'C12.R3', CN, ['approve', 'balance', 'burn', 'burn_from', 'transfer', 'transfer_from', 'mint', 'mint_from', 'allowance'], 10)
    storage_classes(P, rep, 'C12.R3', CN, {'Balance': 'persistent', 'Allowance': 'temporary', 'Minter': 'instance'})
    require_overflow_checks(P, rep, 'C12.R2')
    # R3 who-may-write over all entries
    generic_ok = {}
    for cn, en in P.all_entries():
        if cn != CN:
            continue
        g = P.graph(cn, en)
        for e in state_effects(g):
            if e.kind in ('sw', 'sr', 'supd'):
                v = key_variant(e.key)[0]
                if v == 'Balance':
                    if en not in SPEC and en not in generic_ok:
                        generic_ok[en] = generic_balance_entry(rep, g, en)
                    if generic_ok.get(en):
                        continue
                    rep.check(en in ('transfer', 'transfer_from', 'burn', 'burn_from', 'mint', 'mint_from') and e.kind != 'sr', 'C12.R3',
                              '%s:balance-writer' % en, 'Balance(_) is written only by transfer/burn/mint entries', esite(g, e), e.describe()[:120])
                if v == 'Allowance':
                    rep.check(en in ('approve', 'transfer_from', 'burn_from') and e.kind == 'sw', 'C12.R3', '%s:allowance-writer' % en,
                              'Allowance(_) is written only by approve and delegated spends', esite(g, e), e.describe()[:120])
            if e.kind == 'meta':
                rep.check(en == '__constructor', 'C12.R3', '%s:metadata-writer' % en, 'token metadata is constructor-only', esite(g, e))
    rep.floor('balance write sites', nbal, 8)
    rep.floor('allowance write sites', nall, 3)
    # R6 set_admin: previous administrator is read before the overwrite
    nadm = 0
    for en in ('transfer_ownership', 'set_admin'):
        if en not in c.entries:
            rep.floor('token entry %s' % en, 0, 1)
            continue
        g = P.graph(CN, en)
        ow = [e for e in state_effects(g) if e.kind == 'sw' and key_variant(e.key)[0] == 'Interfaces_Owner']
        evs = [e for e in state_effects(g) if e.kind == 'tokev' and e.name == 'set_admin']
        rep.check(len(evs) == 1 and g.success_needs([e.node for e in evs]), 'C12.R6', '%s:set_admin-event' % en,
                  'exactly one set_admin event before every success exit', entry_id(g))
        after = succ_reachable(g, [e.node for e in ow])
        for e in evs:
            nadm += 1
            prev, new = core(e.args[0]), core(e.args[1])
            okprev = is_sget(prev, 'instance', 'Interfaces_Owner') and prev[3] is not None and tuple(prev[3]) not in after
            rep.check(okprev, 'C12.R6', '%s:set_admin-previous' % en,
                      'set_admin names as previous administrator the owner read BEFORE the owner slot is overwritten', esite(g, e), e.describe()[:200])
            rep.check(new == g.P(1) and any(core(w.val) == new for w in ow), 'C12.R6', '%s:set_admin-new' % en,
                      'set_admin names the new owner that was installed', esite(g, e), e.describe()[:200])
    rep.floor('set_admin event sites', nadm, 2)
