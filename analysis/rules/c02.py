"""C02 — each message is approved once and executed once, only by its destination."""
from rk import *

EXPLAIN = ('gateway: (R1) every write of MessageApproval(_) anywhere stores Approved(_) or Executed; no remove/update of that '
           'key exists (floor 2 writers); (R2) approve_messages: the Approved write and the message_approved event are '
           'must-guarded by stored-status-or-default == NotApproved on the SAME key term {elem.source_chain, elem.message_id} '
           'and store Approved(keccak256(xdr(elem))) for the loop element of the signed batch; (R3) validate_message: the '
           'Executed write and the message_executed event are must-guarded by require_auth(caller) and by stored == '
           'Approved(keccak256(xdr(Message{source_chain, message_id, source_address, contract_address: caller, payload_hash}))) '
           'on key {source_chain, message_id}; every `true` return is preceded by that write; no effect precedes a `false` '
           'return; (R4) the two queries return exactly those comparisons; (R5) the key struct keeps chain and id as two '
           'separate String fields and Message has the five fields.')
NOT_DECIDED = 'structural equality of derive(PartialEq) and injectivity of XDR (T5/T6).'
ASSUME = ['T1', 'T2', 'T3', 'T5', 'T6']
CN = 'axelar_gateway'


def approval_key(t):
    """MessageApproval(MessageApprovalKey{source_chain, message_id}) -> (chain term, id term)"""
    v, args = key_variant(t)
    if v != 'MessageApproval' or not args:
        return None
    f = fields_of(core(args[0]))
    if not f or set(f) != {'source_chain', 'message_id'}:
        return None
    return (core(f['source_chain']), core(f['message_id']))


def status_of(t, key):
    """t is `stored status of key, defaulting to NotApproved`"""
    al = alts(t)
    reads = 0
    for a in al:
        if variant_name(a) == 'NotApproved':
            continue
        c = core(a)
        if c[0] == 'sget' and c[1] == 'persistent' and approval_key(c[2]) == key:
            reads += 1
            continue
        return False
    return reads >= 1


def approved_hash(t):
    """Approved(keccak(xdr(m))) -> m"""
    if variant_name(t) == 'Approved' and t[3] and core(t[3][0])[0] == 'keccak':
        x = core(t[3][0])[1]
        if x[0] == 'xdr':
            return x[1]
    return None


def status_cmp(c, op, key, other_pred):
    if c[0] != 'cmp' or c[1] != op:
        return False
    for a, b in ((c[2], c[3]), (c[3], c[2])):
        if status_of(a, key) and other_pred(b):
            return True
    return False


def status_match(g, key, variant, hash_pred=None):
    """guard-edge sets which TOGETHER mean `stored status of key (default NotApproved) == variant[(hash)]`, whatever the spelling:
    one set of `status == Variant(..)` comparisons, or (pattern matching) the `status is Variant` dispatch edges plus, for
    Approved(h), the comparison of the matched payload with the expected hash.  [] when no such guard exists."""
    def want(b):
        if variant_name(b) != variant:
            return False
        return hash_pred is None or (len(b) > 3 and b[3] and hash_pred(b[3][0]))
    eqs = guard_sel(g, lambda c_: status_cmp(c_, 'eq', key, want))
    if eqs:
        return [eqs]
    iss = guard_sel(g, lambda c_: c_[0] == 'is' and c_[1] == variant and status_of(c_[2], key))
    if not iss:
        return []
    if hash_pred is None:
        return [iss]

    pe = guard_sel(g, lambda c_: payload_cmp(c_, key, variant, hash_pred))
    return [iss, pe] if pe else []


def payload_cmp(c_, key, variant, hash_pred):
    """condition `payload of the stored status matched as `variant` == expected hash`"""
    def matched_payload(t):
        al = alts(t)
        return bool(al) and all(a[0] == 'payload' and a[1] == variant and a[2] == 0 and status_of(a[3], key) for a in al)
    return c_[0] == 'cmp' and c_[1] == 'eq' and ((matched_payload(c_[2]) and hash_pred(c_[3])) or (matched_payload(c_[3]) and hash_pred(c_[2])))


def status_query(g, key, variant, hash_pred=None):
    """the boolean entry returns exactly `stored status of key == variant[(hash)]`"""
    if decided_by(g, status_match(g, key, variant, hash_pred)):
        return True
    if hash_pred is None:
        return False
    # the dispatch on the variant is branched on, the comparison of the payload is the returned value of those paths
    iss = guard_sel(g, lambda c_: c_[0] == 'is' and c_[1] == variant and status_of(c_[2], key))
    return bool(iss) and decided_by(g, [iss], lambda c_: payload_cmp(c_, key, variant, hash_pred))


def mg_all(g, nodes, sets):
    """must-guarded by every one of the edge sets (a conjunction of facts)"""
    if not sets:
        return False, None
    for gs in sets:
        ok, _, w = mg(g, nodes, (), edges(gs))
        if not ok:
            return False, w
    return True, None


def msg_struct(t):
    f = fields_of(core(t))
    if f is None or set(f) != {'source_chain', 'message_id', 'source_address', 'contract_address', 'payload_hash'}:
        return None
    return {k: core(v) for k, v in f.items()}


def ret_terms(g):
    root = g.ctxs[0]
    out = []
    for bi, b in enumerate(root.body['blocks']):
        if not b['cleanup'] and b['term']['t'] == 'return' and (0, bi) in g.node_states:
            out.append(norm(g.term_local(root, bi, len(b['st']), 0)))
    return out


def consume_write_ok(g, e):
    """per-write obligations of a consuming write in an entry other than validate_message (an alias with another argument shape that
    shares the private consume helper): Executed is written under key {X, Y} only behind `stored(key) == Approved(keccak(xdr(Message{
    source_chain: X, message_id: Y, contract_address: A, ..})))` where A's authorisation must-guards the write"""
    key = approval_key(e.key)
    if key is None:
        return False

    def hp(h):
        h = core(h)
        if h[0] != 'keccak' or h[1][0] != 'xdr':
            return False
        f = msg_struct(h[1][1])
        if not f or f['source_chain'] != key[0] or f['message_id'] != key[1]:
            return False
        an = auth_nodes(g, lambda s_: core(s_) == f['contract_address'])
        return bool(an) and mg(g, [e.node], an)[0]
    ok, _ = mg_all(g, [e.node], status_match(g, key, 'Approved', hp))
    return ok


def check(P, rep):
    c = P.crates[CN]
    # R1 who-may-write
    writers = 0
    for cn, en in P.all_entries():
        if cn != CN:
            continue
        g = P.graph(cn, en)
        for e in state_effects(g):
            if e.kind in ('sw', 'sr', 'supd') and key_variant(e.key)[0] == 'MessageApproval':
                if e.kind != 'sw':
                    rep.bad('C02.R1', '%s:status-%s' % (en, e.kind), 'a message status is removed/updated in place (status must only move forward)',
                            esite(g, e), e.describe())
                    continue
                writers += 1
                shapes = set(variant_name(a) for a in alts(e.val))
                where_ok = en in ('approve_messages', 'validate_message') or within_entry(g, e, ('approve_messages', 'validate_message')) \
                    or (shapes == {'Executed'} and consume_write_ok(g, e))
                rep.check(shapes <= {'Approved', 'Executed'} and where_ok, 'C02.R1',
                          '%s:status-shape' % en, 'status write stores Approved(_) or Executed in an approving/consuming entry (another entry may consume when its '
                          'write meets the consume obligations itself: key {chain, id}, stored == Approved(hash of a message with that chain and id whose '
                          'contract_address authorised the call))', esite(g, e), fmt(e.val)[:200])
    rep.floor('MessageApproval writers', writers, 2)
    if writers:
        rep.ok('C02.R1', 'no remove/update of MessageApproval(_) reachable from any gateway entry (zero-expected rule; '
               'positive example: selftest)', CN)
    # R2 approve_messages
    if 'approve_messages' in c.entries:
        g = P.graph(CN, 'approve_messages')
        msgs = g.P(1)
        elem = ('elem', msgs)
        ws = [e for e in state_effects(g) if e.kind == 'sw' and key_variant(e.key)[0] == 'MessageApproval']
        pubs = [e for e in state_effects(g) if e.kind == 'pub' and (tuple_items(e.topics) or [None])[0] == ('sym', 'message_approved')]
        rep.floor('approve_messages status writes', len(ws), 1)
        rep.floor('approve_messages message_approved events', len(pubs), 1)
        for e in ws:
            k = approval_key(e.key)
            want = (('field', 'source_chain', elem), ('field', 'message_id', elem))
            rep.check(k == want, 'C02.R2', 'approve:key', 'approval key is {elem.source_chain, elem.message_id} of the signed batch',
                      esite(g, e), fmt(e.key)[:300])
            m = approved_hash(e.val)
            rep.check(m is not None and core(m) == elem, 'C02.R2', 'approve:value', 'stored value is Approved(keccak256(xdr(elem)))',
                      esite(g, e), fmt(e.val)[:300])
        fresh = status_match(g, approval_key(ws[0].key), 'NotApproved') if ws and approval_key(ws[0].key) else []
        rep.floor('approve_messages NotApproved guard', len(fresh), 1)
        for e in ws + pubs:
            ok, w = mg_all(g, [e.node], fresh)
            rep.check(ok, 'C02.R2', 'approve:%s:fresh-guard' % e.kind,
                      'approval %s is must-guarded by status(key)-or-default == NotApproved on the same key' % ('write' if e.kind == 'sw' else 'event'),
                      esite(g, e), None, w)
        for e in pubs:
            it = tuple_items(e.topics) or []
            rep.check(len(it) == 2 and core(it[1]) == elem, 'C02.R2', 'approve:event-message', 'message_approved carries the loop element',
                      esite(g, e), fmt(e.topics)[:200])
            ok, _, w = mg(g, [e.node], [x.node for x in ws])
            rep.check(ok, 'C02.R2', 'approve:event-after-write', 'message_approved is emitted only after the status write', esite(g, e), None, w)
    else:
        rep.floor('gateway entry approve_messages', 0, 1)
    # R3 validate_message
    if 'validate_message' in c.entries:
        g = P.graph(CN, 'validate_message')
        caller, sc, mid, sa, ph = g.P(1), g.P(2), g.P(3), g.P(4), g.P(5)
        key = (sc, mid)
        ws = [e for e in state_effects(g) if e.kind == 'sw' and key_variant(e.key)[0] == 'MessageApproval']
        pubs = [e for e in state_effects(g) if e.kind == 'pub']
        rep.floor('validate_message status writes', len(ws), 1)
        an = auth_nodes(g, lambda s: core(s) == caller)

        def full_hash(h):
            h = core(h)
            if h[0] != 'keccak' or h[1][0] != 'xdr':
                return False
            f = msg_struct(h[1][1])
            return f == {'source_chain': sc, 'message_id': mid, 'source_address': sa, 'contract_address': caller, 'payload_hash': ph}
        match = status_match(g, key, 'Approved', full_hash)
        rep.floor('validate_message stored==Approved(hash(5 fields)) guard', len(match), 1)
        for e in ws:
            rep.check(approval_key(e.key) == key and variant_name(e.val) == 'Executed', 'C02.R3', 'validate:write-shape',
                      'consume writes Executed on key {source_chain, message_id}', esite(g, e), e.describe()[:200])
        for e in ws + pubs:
            ok, _, w = mg(g, [e.node], an)
            rep.check(ok, 'C02.R3', 'validate:%s:auth' % e.kind, 'consume %s must-guarded by require_auth(caller)' % e.kind, esite(g, e), None, w)
            ok, w = mg_all(g, [e.node], match)
            rep.check(ok, 'C02.R3', 'validate:%s:match' % e.kind,
                      'consume %s must-guarded by stored == Approved(keccak256(xdr(Message{.., contract_address: caller, ..})))' % e.kind,
                      esite(g, e), None, w)
        for e in pubs:
            it = tuple_items(e.topics) or []
            f = msg_struct(it[1]) if len(it) == 2 else None
            rep.check(it and it[0] == ('sym', 'message_executed') and f == {'source_chain': sc, 'message_id': mid, 'source_address': sa,
                                                                            'contract_address': caller, 'payload_hash': ph},
                      'C02.R3', 'validate:event', 'message_executed carries exactly the consumed message', esite(g, e), fmt(e.topics)[:300])
        others = [e for e in state_effects(g) if e not in ws and e not in pubs and not is_bookkeeping(e, GATEWAY_KEYS)]
        rep.check(not others, 'C02.R3', 'validate:no-other-effects', 'validate_message has no other effect', entry_id(g),
                  '; '.join(x.describe() for x in others)[:200])
        trues = set(g.exit_sids(lambda v: v == ('b', True)))
        falses = set(g.exit_sids(lambda v: v == ('b', False)))
        unknown = set(g.exit_sids(lambda v: v not in (('b', True), ('b', False))))
        rep.check(bool(trues) and bool(falses) and not unknown, 'C02.R3', 'validate:exit-kinds', 'return values are statically true/false on every exit',
                  entry_id(g), 'true=%d false=%d unknown=%d' % (len(trues), len(falses), len(unknown)))
        r = g.reach(None, [e.node for e in ws])
        rep.check(not (r & trues), 'C02.R3', 'validate:true-needs-write', 'every `true` return is preceded by the Executed write', entry_id(g))
        r2 = g.reach(None, [e.node for e in pubs])
        rep.check(bool(pubs) and not (r2 & trues), 'C02.R3', 'validate:true-needs-event', 'every `true` return is preceded by the message_executed event', entry_id(g))
        after = g.states_after([e.node for e in ws + pubs])
        rep.check(not (after & falses), 'C02.R3', 'validate:false-effect-free', 'no effect precedes a `false` return', entry_id(g))
    else:
        rep.floor('gateway entry validate_message', 0, 1)
    # R4 queries
    if 'is_message_approved' in c.entries:
        g = P.graph(CN, 'is_message_approved')
        sc, mid, sa, ca, ph = g.P(1), g.P(2), g.P(3), g.P(4), g.P(5)
        ok = False
        rts = ret_terms(g)
        for r in rts:
            if r[0] == 'call' and r[1].endswith('PartialEq>::eq'):
                a, b = r[2]
                for x, y in ((a, b), (b, a)):
                    if status_of(x, (sc, mid)) and variant_name(y) == 'Approved':
                        m = approved_hash(y)
                        f = msg_struct(m) if m is not None else None
                        if f == {'source_chain': sc, 'message_id': mid, 'source_address': sa, 'contract_address': ca, 'payload_hash': ph}:
                            ok = True

        def full_hash_q(h):
            h = core(h)
            return h[0] == 'keccak' and h[1][0] == 'xdr' and msg_struct(h[1][1]) == {'source_chain': sc, 'message_id': mid, 'source_address': sa,
                                                                                      'contract_address': ca, 'payload_hash': ph}
        if not ok and status_query(g, (sc, mid), 'Approved', full_hash_q):
            ok, rts = True, rts[:1]
        rep.check(ok and len(rts) == 1, 'C02.R4', 'is_message_approved', 'returns stored(key) == Approved(hash of the five parameters)', entry_id(g),
                  '; '.join(fmt(r) for r in rts)[:300])
        rep.check(not state_effects(g), 'C02.R4', 'is_message_approved:pure', 'query has no effect', entry_id(g))
    else:
        rep.floor('gateway entry is_message_approved', 0, 1)
    if 'is_message_executed' in c.entries:
        g = P.graph(CN, 'is_message_executed')
        sc, mid = g.P(1), g.P(2)
        rts = ret_terms(g)
        ok = False
        for r in rts:
            if r[0] == 'call' and r[1].endswith('PartialEq>::eq'):
                a, b = r[2]
                for x, y in ((a, b), (b, a)):
                    if status_of(x, (sc, mid)) and variant_name(y) == 'Executed':
                        ok = True
        if not ok and status_query(g, (sc, mid), 'Executed'):
            ok, rts = True, rts[:1]
        rep.check(ok and len(rts) == 1, 'C02.R4', 'is_message_executed', 'returns stored(key) == Executed', entry_id(g),
                  '; '.join(fmt(r) for r in rts)[:300])
        rep.check(not state_effects(g), 'C02.R4', 'is_message_executed:pure', 'query has no effect', entry_id(g))
    else:
        rep.floor('gateway entry is_message_executed', 0, 1)
    storage_classes(P, rep, 'C02.R5', CN, {'MessageApproval': 'persistent'})
    # R5 type table
    k = adt_of(c, 'MessageApprovalKey')
    okk = k is not None and [(f['name'], f['ty']) for f in k['variants'][0]['fields']] == \
        [('source_chain', 'soroban_sdk::String'), ('message_id', 'soroban_sdk::String')]
    rep.check(okk, 'C02.R5', 'key-type', 'MessageApprovalKey = {source_chain: String, message_id: String} (two separate fields)', CN,
              json_short(k))
    m = adt_of(c, 'Message')
    okm = m is not None and [f['name'] for f in m['variants'][0]['fields']] == ['source_chain', 'message_id', 'source_address', 'contract_address', 'payload_hash']
    rep.check(okm, 'C02.R5', 'message-type', 'Message has the five fields', CN, json_short(m))
    v = adt_of(c, 'MessageApprovalValue')
    okv = v is not None and [x['name'] for x in v['variants']] == ['NotApproved', 'Approved', 'Executed']
    rep.check(okv, 'C02.R5', 'status-type', 'status enum is NotApproved | Approved(hash) | Executed', CN, json_short(v))


def json_short(a):
    if a is None:
        return 'missing'
    return '; '.join('%s(%s)' % (v['name'], ','.join('%s:%s' % (f['name'], f['ty']) for f in v['fields'])) for v in a['variants'])
