"""C18 — remote token deployments announce the registered token's true id and metadata."""
import re
from rk import *
from rules.itslib import *
from rules.c11 import is_token_id, is_deploy_salt, is_canonical_salt, is_u8_max
from rules.c05 import outbound, MOVERS

EXPLAIN = ('ITS deploy_remote_interchain_token / deploy_remote_canonical_token: (R1) the interchain variant is guarded by '
           'require_auth(caller) and derives the id from interchain_token_deploy_salt(caller, salt) with the SAME caller term; '
           '(R2) the canonical variant derives it from canonical_token_deploy_salt(token_address) and uses spender only as gas '
           'payer; (R3) every effect is must-guarded by TokenIdConfigKey(id) present for that id; name, symbol and decimals are '
           'read from the REGISTERED token address of that id; effects are must-guarded by decimals <= 255, name non-empty, '
           'symbol non-empty on those very values; (R4) the `as u8` narrowing of decimals is therefore guarded by <= 255; '
           '(R5) the announced message is DeployInterchainToken{token_id: id, name, symbol, decimals, minter: empty} of those '
           'terms, the started-event carries the same terms, and the outbound rules of C05.R4 hold (trusted destination, same '
           'payload to gas service and gateway, payer = caller/spender, gas_token parameter); (R6) no token-moving call; (R7) the clauses that '
           'live elsewhere are evaluated too: gas service pay_gas (C14), gateway call_contract (C13), codec encode side (C10), id derivations '
           '(C11.R1), and "currently trusted": TrustedChain(_) is set / removed only by its owner-authorised entries, removal really removes the '
           'entry the outbound guard tests, is_trusted_chain reports presence (C04.R2).')
NOT_DECIDED = 'honesty of the registered token\'s metadata getters (T8); byte-exact ABI encoding (T7).'
ASSUME = ['T1', 'T2', 'T3', 'T6', 'T7', 'T8']


def is_u8_try_from(t, src_pred):
    """u8::try_from(x) (or its Ok payload) with x accepted by src_pred"""
    t = core(t)
    return t[0] == 'call' and re.search(r'core::convert::num::<impl core::convert::TryFrom<u32> for u8>::try_from$', t[1]) is not None \
        and len(t[2]) == 1 and src_pred(t[2][0])


def check_entry(P, rep, en, payer_i, dest_i, gas_i, salt_pred, need_auth):
    c = P.crates[CN]
    if en not in c.entries:
        rep.floor('ITS entry %s' % en, 0, 1)
        return
    g = P.graph(CN, en)
    payer, dest, gas = g.P(payer_i), g.P(dest_i), g.P(gas_i)
    effs = state_effects(g)
    rep.floor('%s effects' % en, len(effs), 3)
    # the id: taken from the presence guard's key
    reg = registered_guard(g, lambda i: is_token_id(i, lambda s: salt_pred(g, s)))
    rep.floor('%s registered-token guard on the derived id' % en, len(reg), 1)
    idt = core(key_variant(reg[0].cond[1][2])[1][0]) if reg else None
    getters = {e.method: e for e in effects(g) if e.kind == 'xcall' and e.client in ('TokenClient', 'Client') and e.method in ('name', 'symbol', 'decimals')}
    rep.floor('%s metadata getter calls' % en, len(getters), 3)
    vals = {}
    for m, e in getters.items():
        cfg = config_of(e.target)
        rep.check(cfg is not None and cfg[0] == 'token_address' and idt is not None and same(cfg[1], idt), 'C18.R3', '%s:%s-from-registered-token' % (en, m),
                  '%s() is read from the registered token address of the derived id' % m, esite(g, e), fmt(e.target)[:300])
        vals[m] = e.node
    res = lambda m: (lambda t: core(t)[0] == 'call' and len(core(t)) > 3 and tuple(core(t)[3]) == vals.get(m))
    guards = [
        ('token registered under the derived id', reg),
        ('decimals <= 255', guard_sel(g, lambda c_: (c_[0] == 'cmp' and c_[1] == 'le' and res('decimals')(c_[2]) and is_u8_max(c_[3]))
                                      # the checked spelling: u8::try_from(decimals) is Ok exactly when decimals <= 255
                                      or (c_[0] == 'ok' and is_u8_try_from(c_[1], res('decimals'))))),
        ('name non-empty', guard_sel(g, lambda c_: c_[0] == 'false' and c_[1][0] == 'call' and c_[1][1].endswith('String::is_empty') and res('name')(c_[1][2][0]))),
        ('symbol non-empty', guard_sel(g, lambda c_: c_[0] == 'false' and c_[1][0] == 'call' and c_[1][1].endswith('String::is_empty') and res('symbol')(c_[1][2][0]))),
    ]
    for name, gs in guards:
        rep.floor('%s guard: %s' % (en, name), len(gs), 1)
        for e in effs:
            ok, _, w = mg(g, [e.node], (), edges(gs)) if gs else (False, None, None)
            rep.check(ok, 'C18.R3', '%s:%s:%s' % (en, effect_tag(e), name.split(' ')[0]), '%s must-guarded by: %s' % (effect_tag(e), name), esite(g, e), None, w)
    if need_auth:
        an = auth_nodes(g, lambda s: core(s) == payer)
        for e in effs:
            ok, _, w = mg(g, [e.node], an)
            rep.check(ok, 'C18.R1', '%s:%s:auth' % (en, effect_tag(e)), '%s must-guarded by require_auth(caller)' % effect_tag(e), esite(g, e), None, w)

    def inner_ok(inner, cc):
        name, f = inner
        okm = name == 'DeployInterchainToken' and variant_name(core(f.get('messageType'))) == 'DeployInterchainToken'
        tok = core(f.get('tokenId', ('u',)))
        oki = tok[0] == 'call' and tok[1].endswith('FixedBytes::<32>::new') and idt is not None and same(core(tok[2][0]), idt)
        nm = std_string_of(f.get('name', ('u',)))
        sy = std_string_of(f.get('symbol', ('u',)))
        okn = nm is not None and res('name')(nm)
        oks = sy is not None and res('symbol')(sy)
        d = core(f.get('decimals', ('u',)))
        okd = (d[0] == 'cast' and d[1] == 'u8' and res('decimals')(d[3])) or is_u8_try_from(d, res('decimals'))
        okmin = opt_bytes(f.get('minter', ('u',))) == 'EMPTY'
        rep.check(okm and oki and okn and oks and okd and okmin, 'C18.R5', '%s:announced-message' % en,
                  'announced DeployInterchainToken{id, name(), symbol(), decimals() as u8, no minter} of the registered token',
                  esite(g, cc), 'type=%s id=%s name=%s symbol=%s decimals=%s minter-empty=%s' % (okm, oki, okn, oks, okd, okmin))
    outbound(rep, g, 'C18.R5', payer, dest, gas, inner_ok)
    evs = [e for e in effs if e.kind == 'pub']
    rep.check(len(evs) == 1, 'C18.R5', '%s:one-event' % en, 'exactly one event site', entry_id(g))
    for e in evs:
        it = [core(x) for x in (tuple_items(e.topics) or [])]
        okt = len(it) >= 6 and it[0] == ('sym', 'token_deployment_started') and idt is not None and same(it[1], idt) and \
            (config_of(it[2]) or (None, None))[0] == 'token_address' and it[3] == dest and res('name')(it[4]) and res('symbol')(it[5])
        rep.check(okt, 'C18.R5', '%s:event-terms' % en, 'started-event carries (id, registered token address, destination chain, name, symbol, ...)', esite(g, e), fmt(e.topics)[:300])
    rts = ret_terms(g)
    rep.check(bool(rts) and all(any(idt is not None and same(core(a[3][0]), idt) for a in alts(r) if variant_name(a) == 'Ok') for r in rts), 'C18.R5', '%s:returns-id' % en,
              'the returned id is the derived id', entry_id(g))
    movers = [e for e in effs if e.kind == 'xcall' and e.method in MOVERS]
    others = [e for e in effs if e.kind in ('sw', 'sr', 'supd', 'deploy', 'wasm', 'invoke')]
    rep.check(not movers and not others, 'C18.R6', '%s:no-funds-moved' % en, 'no token movement, registry change or deployment besides the gas payment', entry_id(g),
              '; '.join(x.describe() for x in movers + others)[:200])
    return g


def check(P, rep):
    check_ttl_extensions(P, rep, 'C18.R5', 'interchain_token_service', ['deploy_remote_interchain_token', 'deploy_remote_canonical_token'], 2)
    include_rules(P, rep, 'C18.R7', 'c14', lambda o: 'pay_gas' in (o.get('key') or '') + (o.get('site') or '') + o['what'],
                  'gas service charges exactly the stated gas payment from the payer', 6)
    include_rules(P, rep, 'C18.R7', 'c13', lambda o: True, 'gateway announces exactly the payload it was given', 5)
    include_rules(P, rep, 'C18.R7', 'c10', lambda o: o['rule'] in ('C10.R4',) or (o['rule'] in ('C10.R2', 'C10.R3', 'C10.R8') and 'encod' in o['what'] + (o.get('key') or '')),
                  'the announced payload is the ITS wire encoding of the deploy message (codec encode side, layouts)', 10)
    include_rules(P, rep, 'C18.R7', 'c04', lambda o: o['rule'] == 'C04.R2' and any(x in o['what'] for x in
                                                                          ('TrustedChain(chain) before every success exit', 'TrustedChain(_) is set / removed only under',
                                                                           'is_trusted_chain returns presence')),
                  '"currently trusted" destination: the trust set changes exactly as its two owner-only admin entries say, and removal really removes the entry the outbound guard tests', 5)
    include_rules(P, rep, 'C18.R7', 'c11', lambda o: o['rule'] == 'C11.R1', 'token ids are the documented domain-separated derivations (C11.R1)', 8)
    check_entry(P, rep, 'deploy_remote_interchain_token', 1, 3, 4, lambda g, s: is_deploy_salt(s, g.P(1), g.P(2)), True)
    g = check_entry(P, rep, 'deploy_remote_canonical_token', 3, 2, 4, lambda g, s: is_canonical_salt(s, g.P(1)), False)
    if g is not None:
        # spender is used only as the gas payer
        sp = g.P(3)
        for e in state_effects(g):
            terms = []
            if e.kind == 'xcall':
                terms = list(e.args) + [e.target]
                if e.method == 'pay_gas':
                    terms = [x for i, x in enumerate(e.args) if i != 4] + [e.target]
            elif e.kind == 'pub':
                terms = [e.topics, e.data]
            rep.check(not any(contains(t, sp) for t in terms), 'C18.R2', 'deploy_remote_canonical_token:%s:spender-only-pays' % effect_tag(e),
                      'the spender parameter appears only as the gas payer', esite(g, e))
