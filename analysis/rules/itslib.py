"""Shared ITS facts."""
from rk import *

CN = 'interchain_token_service'


def decode_call(t, struct=None):
    """t (core) is Ok-payload of alloy abi_decode_params::<abi::STRUCT>(src, validate) -> (struct, src, validate) else None"""
    t = core(t)
    if t[0] == 'call':
        m = re.search(r'<abi::(\w+) as alloy_sol_types::SolValue>::abi_decode_params', t[1])
        if m and (struct is None or m.group(1) == struct):
            return m.group(1), t[2][0], t[2][1]
    return None


def find_decode(t, struct, src_pred):
    for x in subterms(t):
        d = decode_call(x, struct)
        if d and src_pred(d[1]):
            return x
    return None


def ret_terms(g):
    root = g.ctxs[0]
    out = []
    for bi, b in enumerate(root.body['blocks']):
        if not b['cleanup'] and b['term']['t'] == 'return' and (0, bi) in g.node_states:
            out.append(norm(g.term_local(root, bi, len(b['st']), 0)))
    return out


def hub_chain_const(P):
    c = P.crates[CN]
    if 'its_hub_chain_name' not in c.entries:
        return None
    r = ret_terms(P.graph(CN, 'its_hub_chain_name'))
    if len(r) == 1 and r[0][0] == 'lit':
        return r[0]
    return None


def trusted_guard(g, chain_pred):
    return guard_sel(g, lambda c: c[0] == 'present' and c[1][0] == 'skey' and c[1][1] == 'persistent'
                     and key_variant(c[1][2])[0] == 'TrustedChain' and chain_pred(core(key_variant(c[1][2])[1][0])))


def registered_guard(g, id_pred):
    return guard_sel(g, lambda c: c[0] == 'present' and c[1][0] == 'skey' and c[1][1] == 'persistent'
                     and key_variant(c[1][2])[0] == 'TokenIdConfigKey' and id_pred(core(key_variant(c[1][2])[1][0])))


def unregistered_guard(g, id_pred):
    return guard_sel(g, lambda c: c[0] == 'absent' and c[1][0] == 'skey' and c[1][1] == 'persistent'
                     and key_variant(c[1][2])[0] == 'TokenIdConfigKey' and id_pred(core(key_variant(c[1][2])[1][0])))


def config_of(t):
    """t = field F of stored TokenIdConfigKey(id) -> (F, id) else None"""
    t = core(t)
    if t[0] == 'field' and is_sget(t[2], 'persistent', 'TokenIdConfigKey'):
        return t[1], core(key_variant(core(t[2])[2])[1][0])
    return None


def effect_tag(e):
    if e.kind == 'pub':
        it = tuple_items(e.topics) or []
        if it and it[0][0] == 'sym':
            return 'event:' + it[0][1]
    if e.kind in ('sw', 'sr', 'supd'):
        return '%s:%s' % (e.kind, key_variant(e.key)[0])
    if e.kind == 'xcall':
        return '%s.%s' % (e.client, e.method)
    return e.kind


def std_string_of(t):
    """t = soroban String x converted to an alloc String (to_std_string idiom) -> x"""
    t = core(t)
    if t[0] == 'call' and t[1].endswith('string::String::from_utf8'):
        m = t[2][0]
        if m[0] == 'mut' and m[1].endswith('soroban_sdk::String::copy_into_slice') and m[3]:
            return core(m[3][0])
    return None


def sol_struct(t, name=None):
    """t = abi_encode_params(<sol struct aggregate>) -> (struct name, fields dict)"""
    t = core(t)
    if t[0] == 'call':
        m = re.search(r'<abi::(\w+) as alloy_sol_types::SolValue>::abi_encode_params', t[1])
        if m and (name is None or m.group(1) == name):
            f = fields_of(core(t[2][0]))
            if f is not None:
                return m.group(1), f
    return None


def opt_bytes(t):
    """t = into_vec(Option<Bytes>) i.e. PHI{Vec::default() | Some?(x)} -> x ; or plain default -> 'EMPTY'"""
    al = [core(a) for a in alts(t)]
    xs = [a for a in al if not (a[0] == 'call' and (a[1].endswith('Default>::default') or re.search(r'vec::Vec::<u8>::new$', a[1])) and not a[2])]
    if not xs:
        return 'EMPTY'
    if len(xs) == 1 and len(al) == 2:
        return xs[0]
    return None


def hub_payload(t):
    """payload term -> dict(dest=..., inner=(struct name, fields)) if it is abi(SendToHub{dest, abi(inner)})"""
    s = sol_struct(t, 'SendToHub')
    if not s:
        return None
    f = s[1]
    if variant_name(core(f.get('messageType'))) != 'SendToHub':
        return None
    dest = std_string_of(f.get('destination_chain'))
    inner = sol_struct(f.get('message'))
    if dest is None or inner is None:
        return None
    return dict(dest=dest, inner=inner)
