"""C16 — executable-interface apps act only on approved messages, exactly once."""
from rk import *

EXPLAIN = ('For every implementation of AxelarExecutableInterface::execute found in the build (floor 2: ITS, example): '
           '(R1) every state effect other than the gateway call itself is must-guarded by the TRUE edge of the result of '
           'AxelarGatewayMessagingClient.validate_message(self, source_chain, message_id, source_address, '
           'keccak256(payload)) — the state-changing consume, not the query — addressed to the app\'s gateway() value; '
           'a validation Result that is dropped establishes nothing; no try_ (non-trapping) gateway call; '
           '(R2) argument identity of that call with the entry parameters; (R3) generic: no Result-typed value is '
           'dropped unread anywhere in workspace contract code (zero-expected). "Exactly once" composes with C02.R3 '
           '(the consume marks the message executed); (R4) the gateway-side binding rules C02.R2-R5 (approval stores the hash of the whole five-field message, consume '
           'compares it for caller = the app and marks it executed) are evaluated as part of this property.')
NOT_DECIDED = 'gateway-side semantics are C02; host rollback T1.'
ASSUME = ['T1', 'T2', 'T5', 'T6']


def ret_terms(g):
    root = g.ctxs[0]
    out = []
    for bi, b in enumerate(root.body['blocks']):
        if not b['cleanup'] and b['term']['t'] == 'return' and (0, bi) in g.node_states:
            out.append(norm(g.term_local(root, bi, len(b['st']), 0)))
    return out


def validation(g):
    """(validate xcall effects, true-edges of their results)"""
    vals = [e for e in effects(g) if e.kind == 'xcall' and e.client == 'AxelarGatewayMessagingClient'
            and e.method == 'validate_message']
    sites = set(e.node for e in vals if not e.try_)
    tr = guard_sel(g, lambda c_: c_[0] == 'true' and c_[1][0] == 'call' and len(c_[1]) > 3 and tuple(c_[1][3]) in sites)
    return vals, tr


def dropped_results(crate):
    """calls whose Result-typed destination is never read (let _ = f(); or a bare statement)"""
    out = []
    for key, inst in crate.inst.items():
        if inst['crate'] in ('core', 'alloc', 'std'):
            continue
        used = set()
        for b in inst['blocks']:
            if b['cleanup']:
                continue
            for s in b['st']:
                if s['s'] == 'assign':
                    _uses_rv(s['rv'], used)
                    if s['pl'].get('p'):
                        used.add(s['pl']['l']) if False else None
            t = b['term']
            if t['t'] == 'call':
                for a in t['args']:
                    _uses_op(a, used)
            elif t['t'] == 'switch':
                _uses_op(t['d'], used)
            elif t['t'] == 'assert':
                _uses_op(t['c'], used)
        for bi, b in enumerate(inst['blocks']):
            if b['cleanup']:
                continue
            t = b['term']
            if t['t'] != 'call' or t['dest'].get('p'):
                continue
            l = t['dest']['l']
            if l == 0:
                continue
            ty = inst['locals'][l]
            if not ty.startswith('core::result::Result<'):
                continue
            if l not in used:
                out.append((inst, bi, t))
    return out


def _uses_op(o, used):
    if o['k'] in ('copy', 'move'):
        used.add(o['pl']['l'])


def _uses_rv(rv, used):
    k = rv['r']
    if k == 'use':
        _uses_op(rv['o'], used)
    elif k in ('ref', 'rawptr', 'discr'):
        used.add(rv['pl']['l'])
    elif k == 'bin':
        _uses_op(rv['a'], used)
        _uses_op(rv['b'], used)
    elif k in ('un', 'cast', 'repeat'):
        _uses_op(rv['a'], used)
    elif k == 'agg':
        for o in rv['ops']:
            _uses_op(o, used)


def check(P, rep):
    impls = []
    for cn, en in P.all_entries():
        if en == 'execute' and 'AxelarExecutableInterface>::execute' in P.crates[cn].entries[en]:
            impls.append(cn)
    rep.floor('AxelarExecutableInterface::execute implementations', len(impls), 2)
    for cn in impls:
        g = P.graph(cn, 'execute')
        sc, mid, sa, pl = g.P(1), g.P(2), g.P(3), g.P(4)
        vals, tr = validation(g)
        rep.floor('%s::execute gateway validate_message call' % cn, len(vals), 1)
        gw = ret_terms(P.graph(cn, 'gateway')) if 'gateway' in P.crates[cn].entries else []
        for v in vals:
            rep.check(not v.try_, 'C16.R1', '%s::execute:trapping-validate' % cn, 'gateway validation is a trapping call', esite(g, v))
            a = [core(x) for x in v.args]
            want = [('self',), sc, mid, sa, ('keccak', pl)]
            rep.check(a == want, 'C16.R2', '%s::execute:validate-args' % cn,
                      'validate_message(self, source_chain, message_id, source_address, keccak256(payload)) with the entry\'s own parameters',
                      esite(g, v), v.describe()[:300])
            rep.check(bool(gw) and any(same(core(v.target), core(x)) for x in gw), 'C16.R2', '%s::execute:validate-target' % cn,
                      'validation is addressed to the app\'s gateway() value', esite(g, v), fmt(v.target))
        effs = [e for e in state_effects(g) if e not in vals]
        rep.floor('%s::execute effects' % cn, len(effs), 1)
        for e in effs:
            ok, _, w = mg(g, [e.node], (), edges(tr)) if tr else (False, None, witness(g, e.node))
            rep.check(ok, 'C16.R1', '%s::execute:%s:%s' % (cn, e.kind, effect_tag(e)),
                      'effect is must-guarded by a consumed, successful gateway validation: ' + e.describe()[:100],
                      esite(g, e), None, w)
        rep.check(bool(tr) and g.success_needs((), edges(tr)), 'C16.R1', '%s::execute:success-needs-validation' % cn,
                  'every success exit lies behind the successful-validation edge', entry_id(g))
        trys = [e for e in effects(g) if e.kind in ('xcall', 'invoke') and e.try_]
        rep.check(not trys, 'C16.R1', '%s::execute:no-try-calls' % cn, 'no non-trapping (try_) cross-contract call on the path',
                  entry_id(g), '; '.join(x.describe() for x in trys)[:200])
    # R4 gateway side of the same statement: what "the gateway holds an unexecuted approval naming that application, the same source
    # chain, message id and source address, and the hash of exactly the delivered payload" means is decided by the gateway's own
    # approve / consume rules (C02.R2-R5); they are part of this property's verdict
    gateway_binding(P, rep, 'C16.R4')
    # R3 dropped results, all crates
    nd = 0
    seen = set()
    for cn, c in P.crates.items():
        for inst, bi, t in dropped_results(c):
            k = (inst['def'], t['cdef'] or t['callee'])
            if k in seen:
                continue
            seen.add(k)
            nd += 1
            at = (t.get('at') or '').split('/repo/')[-1]
            rep.bad('C16.R3', 'dropped-result:%s:%s' % (inst['def'].split('::', 1)[-1], (t['cdef'] or t['callee']).split('::')[-1]),
                    'a Result is dropped unread: %s called in %s' % (t['cdef'] or t['callee'], inst['def']),
                    '%s (in %s)' % (at, inst['def']))
    if nd == 0:
        rep.ok('C16.R3', 'no Result-typed call result is dropped unread in any workspace instance', 'all crates')
    rep.count('dropped_results', nd)


def gateway_binding(P, rep, rule):
    from report import Report
    from rules import c02
    sub = Report('C02', rep.tier)
    c02.check(P, sub)
    n = 0
    for o in sub.obligations:
        if o['rule'] not in ('C02.R2', 'C02.R3', 'C02.R4', 'C02.R5', 'FLOOR'):
            continue
        n += 1
        if o['ok']:
            rep.ok(rule, 'gateway binding: ' + o['what'], o.get('site'))
        else:
            rep.bad(rule, 'gateway:' + o['key'], 'gateway-side approval binding broken (the app would accept deliveries the statement excludes): ' + o['what'],
                    o.get('site'), o.get('detail'), o.get('witness'))
    rep.floor('gateway approval-binding obligations', n, 15)


def effect_tag(e):
    if e.kind == 'pub':
        it = tuple_items(e.topics) or []
        if it and it[0][0] == 'sym':
            return it[0][1]
    if e.kind in ('sw', 'sr', 'supd'):
        return str(key_variant(e.key)[0])
    if e.kind == 'xcall':
        return '%s.%s' % (e.client, e.method)
    return e.kind
