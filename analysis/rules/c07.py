"""C07 — no spending / burning / sending / consuming / deploying / executing for an address without its auth."""
from rk import *

EXPLAIN = ('For Address-typed entry parameters a: every subject-position use of a is must-guarded by require_auth(a) '
           '(phrased on the parameter, so authorisation by a recipient/owner/counterparty cannot satisfy it). '
           'Frozen sink table (T): token balance debits and allowance writes, mint_from credit (auth(minter) and stored '
           'minter membership), gas-service inflow transfer, gateway call_contract publish and validate_message consume, '
           'ITS deploy / deploy-remote / transfer effects, operators execute forward, example send calls. '
           'Generic sweep (G) over all 99 entry points: any token-client transfer/burn whose `from` operand is an entry '
           'parameter and any storage debit of Balance(parameter) must be guarded by that parameter\'s auth or by an '
           'allowance spend of the same owner under the spender\'s auth; every token balance write on a parameter that has not '
           'authorised lies behind 0 <= amount (a credit cannot be a debit in disguise).')
NOT_DECIDED = 'host auth-tree semantics (T2); callee-side checks of configured callees (gas service, gateway) are decided in their own contracts.'
ASSUME = ['T1', 'T2', 'T6', 'T8']


def auth_of(g, p):
    return auth_nodes(g, lambda s: core(s) == p)


def check(P, rep):
    n = [0]

    def need(cn, en, pi, sel, what, extra_nodes=None):
        """every effect selected by sel in cn::en is must-guarded by auth(param pi)"""
        c = P.crates.get(cn)
        if c is None or en not in c.entries:
            rep.floor('entry %s::%s' % (cn, en), 0, 1)
            return
        g = P.graph(cn, en)
        p = g.P(pi)
        an = auth_of(g, p)
        effs = [e for e in state_effects(g) if sel(g, e, p)]
        rep.floor('%s::%s subject sinks (%s)' % (cn, en, what), len(effs), 1)
        for e in effs:
            n[0] += 1
            ok, badn, w = mg(g, [e.node], an + (extra_nodes(g) if extra_nodes else []))
            rep.check(ok, 'C07.T', '%s::%s:%s:%s' % (cn, en, what, e.kind),
                      '%s is must-guarded by require_auth(%s)' % (what, fmt(p)), esite(g, e), e.describe()[:200], w)

    def any_effect(g, e, p):
        return True

    def debit_of(g, e, p):
        return e.kind == 'sw' and key_variant(e.key)[0] == 'Balance' and core(key_variant(e.key)[1][0]) == p

    def allowance_write(g, e, p):
        if e.kind != 'sw' or key_variant(e.key)[0] != 'Allowance':
            return False
        f = fields_of(core(key_variant(e.key)[1][0]))
        return f is not None and core(f.get('from')) == p

    def from_is(g, e, p):
        if e.kind == 'xcall' and e.method in ('transfer_from', 'burn_from') and len(e.args) > 1 and core(e.args[1]) == p:
            return True       # pulling from p through an allowance is still spending p's funds in THIS call
        return e.kind == 'xcall' and e.method in ('transfer', 'burn') and e.args and core(e.args[0]) == p

    # --- token ---
    need('interchain_token', 'transfer', 1, debit_of, 'balance debit of from')
    need('interchain_token', 'burn', 1, debit_of, 'balance debit of from')
    need('interchain_token', 'approve', 1, allowance_write, 'allowance write for from')
    for en in ('transfer_from', 'burn_from'):
        # debit of `from` (param 2) is accepted under [allowance spend on (from, spender) and auth(spender)]
        c = P.crates['interchain_token']
        if en not in c.entries:
            rep.floor('entry interchain_token::%s' % en, 0, 1)
            continue
        g = P.graph('interchain_token', en)
        spender, frm = g.P(1), g.P(2)
        an = auth_of(g, spender)
        debits = [e for e in state_effects(g) if debit_of(g, e, frm)]
        rep.floor('interchain_token::%s debit of from' % en, len(debits), 1)
        allow = guard_sel(g, lambda c_: is_allowance_ge(c_, frm, spender, g.P(4 if en == 'transfer_from' else 3)))
        rep.floor('interchain_token::%s allowance sufficiency guard' % en, len(allow), 1)
        for e in debits:
            n[0] += 1
            ok, _, w = mg(g, [e.node], an)
            rep.check(ok, 'C07.T', 'interchain_token::%s:debit-spender-auth' % en,
                      'delegated debit of from is must-guarded by require_auth(spender)', esite(g, e), e.describe()[:200], w)
            ok, _, w = mg(g, [e.node], (), edges(allow))
            rep.check(ok, 'C07.T', 'interchain_token::%s:debit-allowance' % en,
                      'delegated debit of from is must-guarded by allowance(from, spender) >= amount', esite(g, e), None, w)
    # the allowance that stands in for the holder's authorisation must be a LIVE one: a lapsed approval is no authorisation (the expiry
    # clauses of the token rules are part of this property's verdict)
    include_rules(P, rep, 'C07.T', 'c12', lambda o: o['rule'] in ('C12.R5',) or (o['rule'] == 'C12.R4' and 'approve' in (o.get('key') or '') + o['what']),
                  'a delegated debit draws only on an unexpired allowance of the holder, and the holder\'s approve (including a revocation) really replaces the stored allowance', 1)
    # mint_from: credit guarded by auth(minter) and stored membership of the same minter
    if 'mint_from' in P.crates['interchain_token'].entries:
        g = P.graph('interchain_token', 'mint_from')
        minter = g.P(1)
        an = auth_of(g, minter)
        member = guard_sel(g, lambda c_: c_[0] == 'present' and c_[1][0] == 'skey' and c_[1][1] == 'instance'
                           and key_variant(c_[1][2])[0] == 'Minter' and core(key_variant(c_[1][2])[1][0]) == minter)
        rep.floor('mint_from minter membership guard', len(member), 1)
        for e in [e for e in state_effects(g) if e.kind in ('sw', 'supd') and key_variant(e.key)[0] == 'Balance']:
            n[0] += 1
            ok, _, w = mg(g, [e.node], an)
            rep.check(ok, 'C07.T', 'interchain_token::mint_from:auth', 'credit is must-guarded by require_auth(minter)',
                      esite(g, e), None, w)
            ok, _, w = mg(g, [e.node], (), edges(member))
            rep.check(ok, 'C07.T', 'interchain_token::mint_from:member', 'credit is must-guarded by stored Minter(minter) present',
                      esite(g, e), None, w)
    else:
        rep.floor('entry interchain_token::mint_from', 0, 1)
    # --- gas service ---
    need('axelar_gas_service', 'pay_gas', 5, from_is, 'token transfer from spender')
    need('axelar_gas_service', 'add_gas', 3, from_is, 'token transfer from spender')
    # --- gateway ---
    need('axelar_gateway', 'call_contract', 1, lambda g, e, p: e.kind == 'pub', 'announcement naming caller as sender')
    need('axelar_gateway', 'validate_message', 1, any_effect, 'consume for caller')
    # --- ITS ---
    need('interchain_token_service', 'deploy_interchain_token', 1, any_effect, 'deploy under caller-derived salt')
    need('interchain_token_service', 'deploy_remote_interchain_token', 1, any_effect, 'remote deploy under caller-derived salt')
    need('interchain_token_service', 'interchain_transfer', 1, any_effect, 'take/announce for caller')
    # --- operators / example ---
    need('axelar_operators', 'execute', 1, lambda g, e, p: e.kind in ('invoke', 'xcall'), 'forward as operator')
    need('example', 'send', 1, lambda g, e, p: e.kind == 'xcall', 'pay gas / send as caller')

    # --- generic sweep over all entry points ---
    swept = 0
    for cn, en in P.all_entries():
        g = P.graph(cn, en)
        params = [g.P(i) for i in range(1, len(g.abi_params()) + 1)]
        for e in state_effects(g):
            subj = None
            if e.kind == 'xcall' and e.method in ('transfer', 'burn') and e.args:
                a0 = core(e.args[0])
                if a0 in params:
                    subj = a0
            if e.kind == 'xcall' and e.method in ('transfer_from', 'burn_from') and len(e.args) > 1:
                a1 = core(e.args[1])
                if a1 in params:
                    # a foreign token pulled from a named address through an allowance: the named owner must have authorised this
                    # call (an allowance granted earlier, to this contract or to another parameter, is not an authorisation of it)
                    subj = a1
            if e.kind == 'sw' and key_variant(e.key)[0] == 'Balance' and is_debit(e.val):
                k0 = core(key_variant(e.key)[1][0])
                if k0 in params:
                    subj = k0
            if subj is None:
                continue
            swept += 1
            an = auth_of(g, subj)
            ok, _, w = mg(g, [e.node], an)
            if not ok and e.kind == 'sw':
                # delegated debit: allowance spend of the same owner under another parameter's auth
                spend = [x for x in state_effects(g) if x.kind == 'sw' and key_variant(x.key)[0] == 'Allowance'
                         and (fields_of(core(key_variant(x.key)[1][0])) or {}).get('from') is not None
                         and core(fields_of(core(key_variant(x.key)[1][0]))['from']) == subj]
                for x in spend:
                    sp = core(fields_of(core(key_variant(x.key)[1][0]))['spender'])
                    ok2, _, _ = mg(g, [e.node], auth_of(g, sp))
                    if ok2:
                        ok = True
            rep.check(ok, 'C07.G', '%s::%s:%s:%s' % (cn, en, e.kind, fmt(subj)),
                      'debit/transfer/burn of parameter %s is must-guarded by its require_auth (or an allowance spend under the spender\'s auth)' % fmt(subj),
                      esite(g, e), e.describe()[:200], w)
    # consuming a message FOR an address: in every gateway entry, a write of `Executed` lies behind the stored approval of a message whose
    # contract_address authorised the call (validate_message is in the table above; this covers aliases that share its helper)
    from rules.c02 import consume_write_ok
    for cn, en in P.all_entries():
        if cn != 'axelar_gateway' or en == 'validate_message':
            continue
        g = P.graph(cn, en)
        for e in state_effects(g):
            if e.kind == 'sw' and key_variant(e.key)[0] == 'MessageApproval' and any(variant_name(a) == 'Executed' for a in alts(e.val)) \
                    and not within_entry(g, e, ['validate_message']):
                swept += 1
                rep.check(consume_write_ok(g, e), 'C07.G', '%s::%s:consume' % (cn, en),
                          'a message is consumed only for an address that authorised the call (the approved message\'s contract_address)', esite(g, e), e.describe()[:200])
    # a credit is not a debit in disguise: every balance write on a key named by an entry parameter that has NOT authorised the
    # call lies behind `0 <= amount` for the amount it moves (a negative "mint"/"transfer" to X would debit X without X's auth)
    ncred = 0
    for cn, en in P.all_entries():
        if cn != 'interchain_token':
            continue
        g = P.graph(cn, en)
        root = g.ctxs[0]
        params = [g.P(i) for i in range(1, len(g.abi_params()) + 1)]
        amts = [('param', g.param_name(root, l)) for l in range(1, root.body['argc'] + 1) if root.body['locals'][l] == 'i128']
        for e in state_effects(g):
            if e.kind not in ('sw', 'supd') or key_variant(e.key)[0] != 'Balance':
                continue
            k0 = core(key_variant(e.key)[1][0])
            if k0 not in params:
                continue
            ok, _, w = mg(g, [e.node], auth_of(g, k0))
            if ok:
                continue           # the holder authorised: covered by the subject rules above
            ncred += 1
            okc = False
            for a in amts:
                nonneg = guard_sel(g, lambda c_: c_[0] == 'cmp' and c_[1] == 'le' and const_int(core(c_[2])) == 0 and core(c_[3]) == a)
                if nonneg and mg(g, [e.node], (), edges(nonneg))[0]:
                    okc = True
            rep.check(okc, 'C07.G', '%s::%s:credit-nonneg:%s' % (cn, en, fmt(k0)),
                      'balance write on %s, which has not authorised the call, lies behind 0 <= amount (it can only be a credit)' % fmt(k0),
                      esite(g, e), e.describe()[:160], w)
    rep.floor('unauthorised-holder balance writes (credits)', ncred, 4)
    rep.floor('generic sweep subject sinks', swept, 6)
    rep.count('table_instances', n[0])


def is_debit(v):
    for x in subterms(v):
        if x[0] == 'bin' and x[1] in ('SubWithOverflow', 'Sub'):
            return True
        if x[0] == 'call' and 'checked_sub' in x[1]:
            return True
    return False


def is_allowance_ge(c, frm, spender, amount):
    """allowance(from, spender).amount >= amount    canonical: amount <= allowance"""
    if c[0] != 'cmp' or c[1] != 'le' or core(c[2]) != amount:
        return False
    for x in subterms(c[3]):
        if x[0] == 'sget' and x[1] == 'temporary' and key_variant(x[2])[0] == 'Allowance':
            f = fields_of(core(key_variant(x[2])[1][0]))
            if f and core(f.get('from')) == frm and core(f.get('spender')) == spender:
                return True
    return False
