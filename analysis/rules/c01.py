"""C01 — approvals need threshold-weight signatures from a live signer set."""
from rk import *
from rules.gwlib import *

EXPLAIN = ('gateway approve_messages / validate_proof: (R1) every approval write and message_approved event is must-guarded '
           'by: messages non-empty; EpochBySignersHash(H) present for H = keccak256(xdr(WeightedSigners rebuilt from the '
           'proof: signers pushed in order, threshold, nonce)); epoch - set-epoch <= retention; accumulated weight >= '
           'proof.threshold, and so does every SUCCESS exit of approve_messages (an unauthenticated Ok is an acceptance); (R2) the data hash is keccak256(xdr((CommandType::ApproveMessages, messages))) over exactly the '
           'messages parameter and the approving loop iterates that same vector; (R3/R4) the verified digest is '
           'keccak256(domain separator || H || data hash), each signature is verified against the loop element\'s own key, '
           'weights are added by a trapping checked add only after ed25519_verify in the same iteration, the accumulator '
           'starts at 0; (R5) who-may-write: signer-set maps and Epoch only on rotation/constructor paths, '
           'DomainSeparator/PreviousSignerRetention/MinimumRotationDelay constructor-only; (R6) validate_proof entry: every '
           'success exit lies behind the same facts with D = its data_hash parameter and it has no effect; (R7) completeness, structurally: the only '
           'input-dependent refusals and arithmetic traps on the accept path are the expected ones (unknown set, outside retention, signers '
           'exhausted below threshold, weight overflow, empty batch), so no additional condition can refuse an honest, sufficiently signed proof.')
NOT_DECIDED = ('Ed25519/Keccak/XDR mathematics (T5); completeness ("every honest proof is accepted") only structurally: '
               'the threshold comparison is >=, weights are never skipped for Signed entries, traps only on overflow.')
ASSUME = ['T1', 'T3', 'T5', 'T6']
CN = 'axelar_gateway'


def tag(desc):
    return desc.split('(')[0].strip().replace(' ', '-')[:30]


def check(P, rep):
    c = P.crates[CN]
    if 'approve_messages' in c.entries:
        g = P.graph(CN, 'approve_messages')
        msgs, proof = g.P(1), g.P(2)
        D = ('keccak', ('xdr', ('tuple', (('variant', 'CommandType', 'ApproveMessages', ()), msgs))))
        pf = ProofFacts(g, proof, D)
        effs = state_effects(g)
        rep.floor('approve_messages effects', len(effs), 2)
        sites = [(e.node, e.describe(), esite(g, e)) for e in effs]
        check_proof_ok(rep, 'C01.R1', g, pf, sites, tag)
        nonempty = guard_sel(g, lambda c_: c_[0] == 'false' and c_[1][0] == 'call' and c_[1][1].endswith('::is_empty') and core(c_[1][2][0]) == msgs)
        rep.floor('approve_messages non-empty guard', len(nonempty), 1)
        for e in effs:
            ok, _, w = mg(g, [e.node], (), edges(nonempty)) if nonempty else (False, None, None)
            rep.check(ok, 'C01.R1', 'approve_messages:%s:nonempty' % e.kind, 'approval effect is must-guarded by !messages.is_empty()', esite(g, e), None, w)
        # "accepts a batch only if": not only the effects - every SUCCESS exit lies behind the proof facts and the non-empty test (a fast path
        # that answers Ok for a batch of already-known ids without looking at the proof accepts unauthenticated submissions)
        for name, gs in (('lookup', pf.lookup), ('retention', pf.retention), ('threshold', pf.threshold), ('nonempty', nonempty)):
            rep.check(bool(gs) and g.success_needs((), edges(gs)), 'C01.R1', 'approve_messages:accept-needs-%s' % name,
                      'every success exit of approve_messages lies behind the %s guard' % name, entry_id(g))
        check_sig_loop(rep, 'C01.R3', g, pf)
        completeness(rep, 'C01.R7', g, pf, extra=[('empty batch', lambda c_: c_[0] == 'true' and c_[1][0] == 'call' and c_[1][1].endswith('::is_empty') and core(c_[1][2][0]) == msgs)])
        # R2: batch binding — the approving loop iterates the signed vector
        for e in effs:
            if e.kind == 'sw' and key_variant(e.key)[0] == 'MessageApproval':
                v = [a for a in alts(e.val) if variant_name(a) == 'Approved']
                okb = bool(v) and all(core(a[3][0]) == ('keccak', ('xdr', ('elem', msgs))) for a in v)
                rep.check(okb, 'C01.R2', 'approve_messages:batch-binding', 'approved messages are the elements of the signed `messages` vector',
                          esite(g, e), fmt(e.val)[:200])
    else:
        rep.floor('gateway entry approve_messages', 0, 1)
    # R6 validate_proof entry
    if 'validate_proof' in c.entries:
        g = P.graph(CN, 'validate_proof')
        D, proof = g.P(1), g.P(2)
        pf = ProofFacts(g, proof, D)
        for name, gs in (('lookup', pf.lookup), ('retention', pf.retention), ('threshold', pf.threshold)):
            rep.check(bool(gs) and g.success_needs((), edges(gs)), 'C01.R6', 'validate_proof:%s' % name,
                      'every success exit of validate_proof lies behind the %s guard' % name, entry_id(g))
        check_sig_loop(rep, 'C01.R6', g, pf)
        completeness(rep, 'C01.R7', g, pf)
        rep.check(not state_effects(g), 'C01.R6', 'validate_proof:effect-free', 'validate_proof changes nothing', entry_id(g))
    else:
        rep.floor('gateway entry validate_proof', 0, 1)
    # 'registered and still-retained signer set' rests on the rotation bookkeeping and the epoch counter
    include_rules(P, rep, 'C01.R8', 'c03', lambda o: o['rule'] in ('C03.R2',), 'signer sets are registered under exactly their installation epoch (C03.R2)', 8)
    include_rules(P, rep, 'C01.R8', 'c08', lambda o: o['rule'] in ('C08.R4',), 'the epoch counter counts installed sets (C08.R4)', 4)
    require_overflow_checks(P, rep, 'C01.R1')
    # R5 who-may-write
    nw = 0
    for cn, en in P.all_entries():
        if cn != CN:
            continue
        g = P.graph(cn, en)
        for e in state_effects(g):
            if e.kind not in ('sw', 'sr', 'supd'):
                continue
            v = key_variant(e.key)[0]
            if v in ('EpochBySignersHash', 'SignersHashByEpoch', 'Epoch', 'LastRotationTimestamp'):
                nw += 1
                rep.check((en in ('rotate_signers', '__constructor') or within_entry(g, e, ['rotate_signers'])) and e.kind == 'sw', 'C01.R5', '%s:%s-writer' % (en, v),
                          '%s is written only on the rotation / construction path' % v, esite(g, e), e.describe()[:160])
            if v in ('DomainSeparator', 'PreviousSignerRetention', 'MinimumRotationDelay'):
                nw += 1
                rep.check(en == '__constructor' and e.kind == 'sw', 'C01.R5', '%s:%s-writer' % (en, v), '%s is constructor-only' % v, esite(g, e), e.describe()[:160])
    rep.floor('auth-state writers', nw, 9)
    if '__constructor' in c.entries:
        gc = P.graph(CN, '__constructor')
        for variant, pi in (('DomainSeparator', 3), ('MinimumRotationDelay', 4), ('PreviousSignerRetention', 5)):
            ws = [e for e in state_effects(gc) if e.kind == 'sw' and key_variant(e.key)[0] == variant and core(e.val) == gc.P(pi)]
            rep.check(bool(ws) and gc.success_needs([e.node for e in ws]), 'C01.R5', 'constructor:installs-%s' % variant,
                      'successful construction stores %s from its parameter' % variant, entry_id(gc))
    # exactly one proof validator: every ed25519_verify site found is inside a graph checked above
    nver = 0
    for cn, en in P.all_entries():
        if cn != CN:
            continue
        g = P.graph(cn, en)
        for e in effects(g):
            if e.kind == 'sigverify':
                nver += 1
                rep.check(en in ('approve_messages', 'validate_proof', 'rotate_signers') or within_entry(g, e, ('approve_messages', 'validate_proof', 'rotate_signers')), 'C01.R5', '%s:verify-site' % en,
                          'signature verification happens only in the three proof-taking entries', esite(g, e))
    rep.floor('ed25519_verify sites over all entries', nver, 3)
