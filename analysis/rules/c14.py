"""C14 — the gas service holds what was paid in minus what its collector paid out."""
from rk import *

EXPLAIN = ('gas service (structural, necessary clauses): (R1) every token movement in any entry is classified as inflow '
           '(transfer(spender -> self)) or outflow (transfer/approve/burn with from = self); outflows occur only under '
           'require_auth(stored gas collector); any other token-client call is a violation; (R2) pay_gas/add_gas: the inflow '
           'is must-guarded by token.amount > 0 and require_auth(spender) and moves exactly token.amount of token.address from '
           'the spender parameter; collect_fees: the outflow is must-guarded by amount > 0 and balance(self) >= amount read '
           'from the same token; (R3) transfer (token address, amount, counterparty) and the single event (token, '
           'parties) are the same parameter terms; (R4) exactly one transfer and one event on every success path, none '
           'repeatable.')
NOT_DECIDED = ('the running balance equation is decided only through its inductive step (R1-R4: every successful entry moves exactly token.amount '
               'of token.address in the direction its single event reports, and nothing else moves funds); the induction itself, direct third-party '
               'transfers to the service, and "never more than it holds" for refund (the token\'s own insufficiency check, T8) are not decided.')
ASSUME = ['T1', 'T2', 'T6', 'T8']
CN = 'axelar_gas_service'
MOVERS = ('transfer', 'transfer_from', 'burn', 'burn_from', 'approve', 'mint', 'clawback', 'set_admin')


def check(P, rep):
    c = P.crates[CN]
    # R1 classification over all entries
    nin = nout = 0
    for cn, en in P.all_entries():
        if cn != CN:
            continue
        g = P.graph(cn, en)
        col = auth_nodes(g, stored('GasCollector'))
        for e in state_effects(g):
            if e.kind == 'invoke':
                rep.bad('C14.R1', '%s:raw-invoke' % en, 'raw invoke_contract in the gas service', esite(g, e), e.describe())
            if e.kind != 'xcall':
                continue
            a = [core(x) for x in e.args]
            if e.method == 'transfer' and len(a) == 3 and a[1] == ('self',) and a[0] != ('self',):
                nin += 1
                continue
            if e.method in ('transfer', 'burn', 'approve') and a and a[0] == ('self',):
                nout += 1
                ok, _, w = mg(g, [e.node], col)
                rep.check(ok, 'C14.R1', '%s:outflow-collector' % en, 'outflow only under require_auth(stored gas collector): ' + e.describe()[:100],
                          esite(g, e), None, w)
                continue
            rep.bad('C14.R1', '%s:unclassified:%s' % (en, e.method), 'token movement that is neither an inflow to self nor a collector outflow',
                    esite(g, e), e.describe()[:200])
    rep.floor('gas service inflow sites', nin, 2)
    rep.floor('gas service outflow sites', nout, 2)

    def one_each(g, xs, what, rule_key):
        rep.check(len(xs) == 1, 'C14.R4', '%s:one-%s' % (g.entry, rule_key), 'exactly one %s site (found %d)' % (what, len(xs)), entry_id(g))
        for e in xs:
            rep.check(e.node not in succ_reachable(g, [e.node]), 'C14.R4', '%s:%s-once' % (g.entry, rule_key), '%s cannot repeat on a path' % what, esite(g, e))
        rep.check(bool(xs) and g.success_needs([e.node for e in xs]), 'C14.R4', '%s:%s-on-success' % (g.entry, rule_key),
                  'every success exit is preceded by the %s' % what, entry_id(g))

    def positive(g, amt):
        return guard_sel(g, lambda c_: c_[0] == 'cmp' and c_[1] == 'lt' and const_int(core(c_[2])) == 0 and core(c_[3]) == amt)

    for en, spi, tki in (('pay_gas', 5, 6), ('add_gas', 3, 4)):
        if en not in c.entries:
            rep.floor('gas service entry %s' % en, 0, 1)
            continue
        g = P.graph(CN, en)
        sp, tok = g.P(spi), g.P(tki)
        amt, addr = ('field', 'amount', tok), ('field', 'address', tok)
        xs = [e for e in state_effects(g) if e.kind == 'xcall']
        evs = [e for e in state_effects(g) if e.kind == 'pub']
        one_each(g, xs, 'token transfer', 'transfer')
        one_each(g, evs, 'event', 'event')
        pos = positive(g, amt)
        rep.floor('%s amount>0 guard' % en, len(pos), 1)
        an = auth_nodes(g, lambda s: core(s) == sp)
        for e in xs:
            a = [core(x) for x in e.args]
            rep.check(e.client == 'TokenClient' and e.method == 'transfer' and core(e.target) == addr and a == [sp, ('self',), amt] and not e.try_,
                      'C14.R3', '%s:transfer-terms' % en, 'moves exactly token.amount of token.address from the spender parameter to the service',
                      esite(g, e), e.describe()[:200])
            ok, _, w = mg(g, [e.node], (), edges(pos)) if pos else (False, None, None)
            rep.check(ok, 'C14.R2', '%s:amount-positive' % en, 'inflow must-guarded by token.amount > 0', esite(g, e), None, w)
            ok, _, w = mg(g, [e.node], an)
            rep.check(ok, 'C14.R2', '%s:spender-auth' % en, 'inflow must-guarded by require_auth(spender)', esite(g, e), None, w)
        for e in evs:
            it = [core(x) for x in (tuple_items(e.topics) or [])]
            if en == 'pay_gas':
                want = [('sym', 'gas_paid'), g.P(1), g.P(2), g.P(3), ('keccak', g.P(4)), sp, tok]
                okd = [core(x) for x in (tuple_items(e.data) or [])] == [g.P(7)]
            else:
                want = [('sym', 'gas_added'), g.P(1), g.P(2), sp, tok]
                okd = True
            rep.check(it == want and okd, 'C14.R3', '%s:event-terms' % en, 'event names the same token, amount and parties as the transfer', esite(g, e), fmt(e.topics)[:300])
    for en in ('collect_fees', 'refund'):
        if en not in c.entries:
            rep.floor('gas service entry %s' % en, 0, 1)
            continue
        g = P.graph(CN, en)
        if en == 'collect_fees':
            recv, tok = g.P(1), g.P(2)
        else:
            recv, tok = g.P(2), g.P(3)
        amt, addr = ('field', 'amount', tok), ('field', 'address', tok)
        xs = [e for e in state_effects(g) if e.kind == 'xcall']
        evs = [e for e in state_effects(g) if e.kind == 'pub']
        one_each(g, xs, 'token transfer', 'transfer')
        one_each(g, evs, 'event', 'event')
        for e in xs:
            a = [core(x) for x in e.args]
            rep.check(e.client == 'TokenClient' and e.method == 'transfer' and core(e.target) == addr and a == [('self',), recv, amt] and not e.try_,
                      'C14.R3', '%s:transfer-terms' % en, 'pays exactly token.amount of token.address from the service to the receiver parameter',
                      esite(g, e), e.describe()[:200])
        if en == 'collect_fees':
            pos = positive(g, amt)
            rep.floor('collect_fees amount>0 guard', len(pos), 1)
            bals = [e for e in effects(g) if e.kind == 'xcall' and e.method == 'balance' and core(e.target) == addr and [core(x) for x in e.args] == [('self',)]]
            bsites = set(e.node for e in bals)
            enough = guard_sel(g, lambda c_: c_[0] == 'cmp' and c_[1] == 'le' and core(c_[2]) == amt and core(c_[3])[0] == 'call'
                               and len(core(c_[3])) > 3 and tuple(core(c_[3])[3]) in bsites)
            rep.floor('collect_fees balance(self) >= amount guard', len(enough), 1)
            for e in xs:
                ok, _, w = mg(g, [e.node], (), edges(pos)) if pos else (False, None, None)
                rep.check(ok, 'C14.R2', 'collect_fees:amount-positive', 'collection must-guarded by token.amount > 0', esite(g, e), None, w)
                ok, _, w = mg(g, [e.node], (), edges(enough)) if enough else (False, None, None)
                rep.check(ok, 'C14.R2', 'collect_fees:enough', 'collection must-guarded by balance(self) >= token.amount on the same token', esite(g, e), None, w)
        for e in evs:
            it = [core(x) for x in (tuple_items(e.topics) or [])]
            if en == 'collect_fees':
                okt = len(it) == 3 and it[0] == ('sym', 'gas_collected') and is_sget(it[1], 'instance', 'GasCollector') and it[2] == tok
            else:
                okt = it == [('sym', 'gas_refunded'), g.P(1), recv, tok]
            rep.check(okt, 'C14.R3', '%s:event-terms' % en, 'event names the same token and amount as the transfer', esite(g, e), fmt(e.topics)[:300])
