"""C11 — token ids are deterministic, write-once; deployed tokens stay ITS-mintable."""
from rk import *
from rules.itslib import *

EXPLAIN = ('ITS: (R1) interchain_token_deploy_salt = keccak256(xdr(("interchain-token-salt", keccak256(xdr(stored chain name)), '
           'deployer, salt))), interchain_token_id = keccak256(xdr(("its-interchain-token-id", sender, salt))), '
           'canonical_token_deploy_salt = keccak256(xdr(("canonical-token-salt", chain-name hash, token_address))): pure, '
           'pairwise distinct prefixes, only parameters/constants/stored ChainName (constructor-only) as sources; ids used by '
           'deploy/register are built from them with the zero address and the caller\'s own salt; (R2) the deployer address is '
           'with_address(self, id) for the same id that is passed to the token constructor and used as registry key; '
           '(R3) write-once: every TokenIdConfigKey(id) write anywhere is must-guarded by absence of that key or by a deploy_v2 '
           'at with_address(self, id) of the same id (occupied address traps, T4); no remove/update of the key; '
           '(R4) constructor agreement: ITS passes (self, minter, id, metadata) and the token constructor takes (owner, minter, '
           'token_id, metadata), installs owner, Minter(owner), Minter(minter) when given, TokenId and validated metadata; '
           '(R5) the service never revokes itself: no remove_minter(self) / ownership transfer on a deployed token; '
           '(R6) initial supply is minted to the caller under initial_supply > 0 and the designated minter is the minter parameter.')
NOT_DECIDED = 'uniqueness of deploy addresses in the host (T4); keccak/XDR injectivity (T5).'
ASSUME = ['T1', 'T3', 'T4', 'T5', 'T6', 'T9']

ZERO = 'GAAAAAAAAAAAAAAAAAAAAAAAAAAAAAAAAAAAAAAAAAAAAAAAAAAAAWHF'


def const_str(t):
    t = core(t)
    while t[0] == 'lit':
        t = t[1]
    v = const_value(t)
    return v.strip('"') if v is not None else None


def hashed_tuple(t):
    """keccak(xdr((a, b, ...))) -> [a, b, ...]"""
    t = core(t)
    if t[0] == 'keccak' and t[1][0] == 'xdr' and t[1][1][0] == 'tuple':
        return [core(x) for x in t[1][1][1]]
    return None


def chain_hash(t):
    t = core(t)
    return t[0] == 'keccak' and t[1][0] == 'xdr' and is_sget(t[1][1], 'instance', 'ChainName')


def is_deploy_salt(t, deployer, salt):
    h = hashed_tuple(t)
    return h is not None and len(h) == 4 and const_str(h[0]) == 'interchain-token-salt' and chain_hash(h[1]) and h[2] == deployer and h[3] == salt


def is_canonical_salt(t, token):
    h = hashed_tuple(t)
    return h is not None and len(h) == 3 and const_str(h[0]) == 'canonical-token-salt' and chain_hash(h[1]) and h[2] == token


def is_token_id(t, salt_pred):
    h = hashed_tuple(t)
    return h is not None and len(h) == 3 and const_str(h[0]) == 'its-interchain-token-id' and const_str(h[1]) == ZERO and salt_pred(h[2])


def impure_sources(t):
    bad = []
    for x in subterms(t):
        if x[0] in ('now', 'seq'):
            bad.append(x[0])
        if x[0] == 'call' and ('prng' in x[1] or 'Ledger::' in x[1]):
            bad.append(x[1])
        if x[0] == 'sget' and key_variant(x[2])[0] != 'ChainName':
            bad.append('storage:' + str(key_variant(x[2])[0]))
    return bad


def check(P, rep):
    c = P.crates[CN]
    # R1 derivations
    specs = [('interchain_token_deploy_salt', lambda g, t: is_deploy_salt(t, g.P(1), g.P(2))),
             ('interchain_token_id', lambda g, t: (hashed_tuple(t) or [None])[1:] == [g.P(1), g.P(2)] and const_str(hashed_tuple(t)[0]) == 'its-interchain-token-id'),
             ('canonical_token_deploy_salt', lambda g, t: is_canonical_salt(t, g.P(1)))]
    prefixes = []
    for en, pred in specs:
        if en not in c.entries:
            rep.floor('ITS entry %s' % en, 0, 1)
            continue
        g = P.graph(CN, en)
        rts = ret_terms(g)
        ok = len(rts) == 1 and pred(g, rts[0])
        rep.check(ok, 'C11.R1', '%s:formula' % en, '%s is the documented prefixed keccak256-over-XDR of its parameters' % en, entry_id(g), '; '.join(fmt(r) for r in rts)[:300])
        for r in rts:
            bad = impure_sources(r)
            rep.check(not bad, 'C11.R1', '%s:pure-sources' % en, 'derivation reads only parameters, constants and the stored chain name', entry_id(g), ', '.join(bad))
            h = hashed_tuple(r)
            if h:
                prefixes.append(const_str(h[0]))
        rep.check(not state_effects(g), 'C11.R1', '%s:effect-free' % en, 'derivation changes nothing', entry_id(g))
    rep.check(len(prefixes) == 3 and len(set(prefixes)) == 3 and None not in prefixes, 'C11.R1', 'prefixes-distinct', 'the three domain prefixes are pairwise distinct constants',
              CN, ', '.join(str(x) for x in prefixes))
    # ChainName constructor-only
    for cn, en in P.all_entries():
        if cn != CN:
            continue
        g = P.graph(cn, en)
        for e in state_effects(g):
            if e.kind in ('sw', 'sr', 'supd') and key_variant(e.key)[0] in ('ChainName', 'InterchainTokenWasmHash', 'Gateway', 'GasService', 'ItsHubAddress'):
                rep.check(en == '__constructor' and e.kind == 'sw' and is_param(core(e.val)), 'C11.R1', '%s:%s-writer' % (en, key_variant(e.key)[0]),
                          '%s is set only by the constructor from a parameter' % key_variant(e.key)[0], esite(g, e), e.describe()[:160])
    # a delivered deploy message / a local deploy cannot die in a TTL extension of an entry that need not exist
    check_ttl_extensions(P, rep, 'C11.R2', CN, ['execute', 'deploy_interchain_token', 'register_canonical_token'], 2)
    storage_classes(P, rep, 'C11.R3', CN, {'TokenIdConfigKey': 'persistent', 'ChainName': 'instance'})
    storage_classes(P, rep, 'C11.R4', 'interchain_token', {'Minter': 'instance', 'TokenId': 'instance', 'Interfaces_Owner': 'instance'})
    # R3 registry writes (all entries) + R2 deploy address
    nw = 0
    for cn, en in P.all_entries():
        if cn != CN:
            continue
        g = P.graph(cn, en)
        deploys = [e for e in state_effects(g) if e.kind == 'deploy']
        for e in state_effects(g):
            if e.kind in ('sr', 'supd') and key_variant(e.key)[0] == 'TokenIdConfigKey':
                rep.bad('C11.R3', '%s:registry-%s' % (en, e.kind), 'a token registration is removed or updated in place', esite(g, e), e.describe()[:160])
            if e.kind != 'sw' or key_variant(e.key)[0] != 'TokenIdConfigKey':
                continue
            nw += 1
            idt = core(key_variant(e.key)[1][0])
            fresh = unregistered_guard(g, lambda i: same(i, idt))
            okf = bool(fresh) and mg(g, [e.node], (), edges(fresh))[0]
            dep = [d for d in deploys if core(d.address) == ('self',) and same(core(d.salt), idt)]
            okd = bool(dep) and mg(g, [e.node], [d.node for d in dep])[0]
            # the deploy trap (T4) protects only ids that can have been taken by an earlier DEPLOY: ids derived locally under the
            # interchain-token-salt prefix are domain-separated from canonical ids; an id taken from a message is arbitrary and may be a
            # canonical (LockUnlock) id whose deploy address is free, so it needs the explicit absence guard
            local_id = is_token_id(idt, lambda s_: (hashed_tuple(s_) or [None])[0] is not None and const_str(hashed_tuple(s_)[0]) == 'interchain-token-salt')
            rep.check(okf or (okd and local_id), 'C11.R3', '%s:registry-write-once' % en,
                      'registration must-guarded by absence of the same id, or (for a locally derived interchain id only) by a deploy at with_address(self, same id)',
                      esite(g, e), 'fresh-guard=%s deploy-at-id=%s locally-derived-id=%s' % (okf, okd, local_id), witness(g, e.node))
            f = fields_of(core(e.val)) or {}
            if dep:
                tv = core(f.get('token_address', ('u',)))
                rep.check(tv[0] == 'call' and 'deploy_v2' in tv[1] and len(tv) > 3 and tuple(tv[3]) in set(d.node for d in dep) and
                          variant_name(core(f.get('token_manager_type', ('u',)))) == 'NativeInterchainToken', 'C11.R2', '%s:registry-value' % en,
                          'the registered address is the address deployed for that id, manager type NativeInterchainToken', esite(g, e), fmt(e.val)[:200])
        for d in deploys:
            args = tuple_items(core(d.args)) or []
            rep.check(core(d.address) == ('self',) and len(args) == 4 and core(args[0]) == ('self',) and same(core(args[2]), core(d.salt)) and
                      is_sget(d.wasm, 'instance', 'InterchainTokenWasmHash'), 'C11.R2', '%s:deploy-terms' % en,
                      'deploy_v2 at with_address(self, id) of the stored token wasm with constructor args (self, minter, the same id, metadata)',
                      esite(g, d), d.describe()[:300])
    rep.floor('TokenIdConfigKey writers', nw, 3)
    # ids used by the registering entries
    if 'deploy_interchain_token' in c.entries:
        g = P.graph(CN, 'deploy_interchain_token')
        caller, salt, meta, supply, minter = [g.P(i) for i in range(1, 6)]
        for e in state_effects(g):
            if e.kind == 'sw' and key_variant(e.key)[0] == 'TokenIdConfigKey':
                idt = core(key_variant(e.key)[1][0])
                rep.check(is_token_id(idt, lambda s: is_deploy_salt(s, caller, salt)), 'C11.R1', 'deploy_interchain_token:id',
                          'registered id = interchain_token_id(zero address, interchain_token_deploy_salt(caller, salt))', esite(g, e), fmt(idt)[:300])
        rts = ret_terms(g)
        rep.check(all(any(is_token_id(core(a[3][0]), lambda s: is_deploy_salt(s, caller, salt)) for a in alts(r) if variant_name(a) == 'Ok') for r in rts) and bool(rts),
                  'C11.R1', 'deploy_interchain_token:returns-id', 'the returned id is that same id', entry_id(g))
        # R6
        pos = guard_sel(g, lambda c_: c_[0] == 'cmp' and c_[1] == 'lt' and const_int(core(c_[2])) == 0 and core(c_[3]) == supply)
        mints = [e for e in state_effects(g) if e.kind == 'xcall' and e.method in ('mint', 'mint_from')]
        rep.floor('deploy_interchain_token initial-supply mint', len(mints), 1)
        deps = [d for d in state_effects(g) if d.kind == 'deploy']
        dsites = set(d.node for d in deps)
        on_deployed = lambda e: core(e.target)[0] == 'call' and len(core(e.target)) > 3 and tuple(core(e.target)[3]) in dsites
        for e in mints:
            a = [core(x) for x in e.args]
            rep.check(on_deployed(e) and a == [caller, supply], 'C11.R6', 'deploy_interchain_token:mint-terms', 'initial supply is minted to the caller on the deployed token', esite(g, e), e.describe()[:200])
            ok, _, w = mg(g, [e.node], (), edges(pos)) if pos else (False, None, None)
            rep.check(ok, 'C11.R6', 'deploy_interchain_token:mint-positive', 'initial mint must-guarded by initial_supply > 0', esite(g, e), None, w)
        for d in deps:
            args = tuple_items(core(d.args)) or []
            m = args[1] if len(args) == 4 else ('u',)
            okm = all(variant_name(a) == 'None' or (variant_name(a) == 'Some' and core(a[3][0]) in (('self',), minter)) or core(a) == minter for a in alts(m))
            rep.check(okm, 'C11.R6', 'deploy_interchain_token:initial-minter', 'the constructor\'s minter is none, the service (while it mints the supply) or the minter parameter', esite(g, d), fmt(m)[:200])
            rep.check(len(args) == 4 and core(args[3]) == meta, 'C11.R6', 'deploy_interchain_token:metadata', 'the requested metadata is passed to the token constructor', esite(g, d))
        # completeness ("any combination of initial supply and minter"): the service-as-minter refusal exists only where the service is NOT
        # already the initial minter, i.e. behind initial_supply <= 0 (seeded change C11-h hoisted it above the supply test)
        nonpos = guard_sel(g, lambda c_: c_[0] == 'cmp' and c_[1] == 'le' and core(c_[2]) == supply and const_int(core(c_[3])) == 0)
        for gd in rejecting_edges(g):
            c_ = gd.cond
            txt_ = repr(c_)
            if c_[0] == 'cmp' and "('self',)" in txt_ and "('param', 'minter')" in txt_:
                ok, _, w = mg(g, [(gd.ctx.id, gd.bb)], (), edges(nonpos)) if nonpos else (False, None, None)
                rep.check(ok, 'C11.R6', 'deploy_interchain_token:self-minter-refusal-only-without-supply',
                          'the minter == service refusal is must-guarded by initial_supply <= 0 (with a positive supply every minter, the service included, is accepted)',
                          site(g, gd.ctx, gd.bb), fmt(c_)[:200], w)
        adds = [e for e in state_effects(g) if e.kind == 'xcall' and e.method == 'add_minter']
        # whenever a minter is designated, every successful deployment gives it minting rights: either the constructor receives
        # Some(minter) (the definition of that alternative lies on the path) or add_minter(minter) is called afterwards
        grant_nodes = [e.node for e in adds if [core(x) for x in e.args] == [minter]]
        for d in deps:
            t_ = d.ctx.body['blocks'][d.bb]['term']
            for nodes, leaf in g.def_chains(d.ctx, d.bb, len(d.ctx.body['blocks'][d.bb]['st']),
                                            {'l': t_['args'][2]['pl']['l'], 'p': list(t_['args'][2]['pl'].get('p', [])) + [{'f': 1, 'n': '1'}]}):
                if nodes and (core(leaf) == minter or (variant_name(leaf) == 'Some' and leaf[3] and core(leaf[3][0]) == minter)):
                    grant_nodes.append(nodes[-1])
        # aliasing hazard: a revocation that can run AFTER a grant on the same token cancels it when the two addresses coincide
        # (minter == the service itself): grants must come last
        rems = [e for e in state_effects(g) if e.kind == 'xcall' and e.method == 'remove_minter']
        for a_ in adds:
            later = [r for r in rems if r.node in succ_reachable(g, [a_.node])]
            rep.check(not later, 'C11.R6', 'deploy_interchain_token:grant-then-revoke',
                      'no remove_minter can run after add_minter on the deployed token (if the two addresses coincide the grant is cancelled)', esite(g, a_),
                      '; '.join(r.describe()[:80] for r in later))
        no_minter = guard_sel(g, lambda c_: c_ == ('absent', minter))
        rep.floor('deploy_interchain_token designated-minter grant sites', len(grant_nodes), 2)
        rep.check(bool(grant_nodes) and g.success_needs(grant_nodes, edges(no_minter)), 'C11.R6', 'deploy_interchain_token:designated-minter-gets-rights',
                  'whenever a minter is designated, every successful deployment passes a grant of minting rights to it (constructor argument or add_minter), '
                  'for every initial supply', entry_id(g))
        for e in adds:
            rep.check(on_deployed(e) and [core(x) for x in e.args] == [minter], 'C11.R6', 'deploy_interchain_token:add-minter',
                      'only the minter parameter is added as minter', esite(g, e), e.describe()[:200])
    else:
        rep.floor('ITS entry deploy_interchain_token', 0, 1)
    if 'register_canonical_token' in c.entries:
        g = P.graph(CN, 'register_canonical_token')
        tok = g.P(1)
        for e in state_effects(g):
            if e.kind == 'sw' and key_variant(e.key)[0] == 'TokenIdConfigKey':
                idt = core(key_variant(e.key)[1][0])
                f = fields_of(core(e.val)) or {}
                rep.check(is_token_id(idt, lambda s: is_canonical_salt(s, tok)), 'C11.R1', 'register_canonical_token:id',
                          'registered id = interchain_token_id(zero address, canonical_token_deploy_salt(token_address))', esite(g, e), fmt(idt)[:300])
                rep.check(core(f.get('token_address', ('u',))) == tok and variant_name(core(f.get('token_manager_type', ('u',)))) == 'LockUnlock', 'C11.R2',
                          'register_canonical_token:value', 'registers (token_address parameter, LockUnlock)', esite(g, e), fmt(e.val)[:200])
    else:
        rep.floor('ITS entry register_canonical_token', 0, 1)
    # R5 the service stays minter / owner of what it deploys
    for cn, en in P.all_entries():
        if cn != CN:
            continue
        g = P.graph(cn, en)
        for e in state_effects(g):
            if e.kind != 'xcall':
                continue
            a = [core(x) for x in e.args]
            if e.method == 'remove_minter' and a and a[0] == ('self',):
                rep.bad('C11.R5', '%s:remove_minter-self' % en,
                        'the service revokes its own minting right on a token it deployed (later inbound transfers to that token trap with NotMinter)',
                        esite(g, e), e.describe()[:200] + ' ; reachable when initial_supply > 0 and a minter is given', witness(g, e.node))
            if e.method in ('transfer_ownership', 'set_admin') and e.client in ('InterchainTokenClient', 'StellarAssetClient', 'OwnableClient'):
                rep.bad('C11.R5', '%s:%s' % (en, e.method), 'the service gives away ownership of a token it deployed', esite(g, e), e.describe()[:200])
    rep.ok('C11.R5', 'scan of all ITS entries for remove_minter(self) / ownership transfer on deployed tokens completed', CN)
    # R4 constructor agreement with the token contract
    tc = P.crates.get('interchain_token')
    if tc is None or '__constructor' not in tc.entries:
        rep.floor('token constructor', 0, 1)
        return
    g = P.graph('interchain_token', '__constructor')
    owner, minter, tid, meta = [g.P(i) for i in range(1, 5)]
    tys = [g.param_type(i) for i in range(1, 5)]
    rep.check(len(g.abi_params()) == 4 and tys[0] == 'soroban_sdk::Address' and tys[1].startswith('core::option::Option<soroban_sdk::Address') and
              tys[2] == 'soroban_sdk::BytesN<32>' and 'TokenMetadata' in tys[3], 'C11.R4', 'token-constructor:signature',
              'token constructor takes (owner: Address, minter: Option<Address>, token_id: BytesN<32>, metadata)', entry_id(g), ', '.join(str(t) for t in tys))
    effs = state_effects(g)
    sw = {}
    for e in effs:
        if e.kind == 'sw':
            sw.setdefault(key_variant(e.key)[0], []).append(e)
    rep.check(len(sw.get('Interfaces_Owner', [])) == 1 and core(sw['Interfaces_Owner'][0].val) == owner and g.success_needs([sw['Interfaces_Owner'][0].node]),
              'C11.R4', 'token-constructor:owner', 'the first constructor argument becomes the owner', entry_id(g))
    rep.check(len(sw.get('TokenId', [])) == 1 and core(sw['TokenId'][0].val) == tid and g.success_needs([sw['TokenId'][0].node]),
              'C11.R4', 'token-constructor:token-id', 'the token reports the id it was deployed under', entry_id(g))
    ms = sw.get('Minter', [])
    who = [core(key_variant(e.key)[1][0]) for e in ms]
    rep.check(owner in who and g.success_needs([e.node for e in ms if core(key_variant(e.key)[1][0]) == owner]), 'C11.R4', 'token-constructor:owner-minter',
              'the owner (the service) is a minter', entry_id(g))
    rep.check(set(map(strip_sites, who)) <= {owner, minter} and minter in who, 'C11.R4', 'token-constructor:minters',
              'minting rights go to the owner and the designated minter only', entry_id(g), ', '.join(fmt(x) for x in who))
    given = guard_sel(g, lambda c_: c_ == ('present', minter))
    for e in ms:
        if core(key_variant(e.key)[1][0]) == minter:
            # when a minter is given, success requires installing it
            rep.check(bool(given) and g.success_needs([e.node], [x.edge for x in guard_sel(g, lambda c_: c_ == ('absent', minter))]), 'C11.R4',
                      'token-constructor:minter-installed', 'a designated minter is installed whenever one is given', esite(g, e))
    # the owner-mint used by the service for inbound transfers needs exactly: owner auth + the owner being a minter
    if 'mint' in tc.entries:
        gm = P.graph('interchain_token', 'mint')
        credits = [e for e in state_effects(gm) if e.kind in ('sw', 'supd') and key_variant(e.key)[0] == 'Balance']
        rep.floor('token mint credit', len(credits), 1)
        member = guard_sel(gm, lambda c_: c_[0] == 'present' and c_[1][0] == 'skey' and key_variant(c_[1][2])[0] == 'Minter'
                           and is_sget(key_variant(c_[1][2])[1][0], 'instance', 'Interfaces_Owner'))
        other = guard_sel(gm, lambda c_: c_[0] in ('present', 'absent') and c_[1][0] == 'skey' and key_variant(c_[1][2])[0] == 'Minter'
                          and not is_sget(key_variant(c_[1][2])[1][0], 'instance', 'Interfaces_Owner'))
        rep.check(bool(member) and not other, 'C11.R4', 'token-mint:owner-membership', 'owner mint checks minter membership of the stored owner only (so the service, owner and minter of every '
                  'token it deploys, can mint for inbound transfers)', entry_id(gm))
        for e in credits:
            rep.check(core(key_variant(e.key)[1][0]) == gm.P(1), 'C11.R4', 'token-mint:credits-recipient', 'owner mint credits the `to` parameter', esite(gm, e))
    for en, kind in (('add_minter', 'sw'), ('remove_minter', 'sr')):
        if en in tc.entries:
            gm = P.graph('interchain_token', en)
            es = [e for e in state_effects(gm) if e.kind == kind and key_variant(e.key)[0] == 'Minter' and core(key_variant(e.key)[1][0]) == gm.P(1)]
            rep.check(bool(es) and gm.success_needs([e.node for e in es]), 'C11.R4', 'token-%s:effective' % en,
                      'token %s really %s Minter(minter) before every success exit' % (en, 'sets' if kind == 'sw' else 'removes'), entry_id(gm))
        else:
            rep.floor('token entry ' + en, 0, 1)
    metas = [e for e in effs if e.kind == 'meta']
    rep.check(len(metas) == 1 and core(metas[0].val) == meta and g.success_needs([metas[0].node]), 'C11.R4', 'token-constructor:metadata',
              'the requested metadata is stored', entry_id(g))
    for e in metas:
        for name, gs in metadata_guards(g, lambda f: ('field', f, meta)):
            ok, _, w = mg(g, [e.node], (), edges(gs)) if gs else (False, None, None)
            rep.check(ok, 'C11.R4', 'token-constructor:metadata-valid:' + name, 'metadata stored only if ' + name, esite(g, e), None, w)


def metadata_guards(g, fld):
    dec = guard_sel(g, lambda c_: c_[0] == 'cmp' and c_[1] == 'le' and core(c_[2]) == fld('decimal') and is_u8_max(c_[3]))
    nm = guard_sel(g, lambda c_: c_[0] == 'false' and c_[1][0] == 'call' and c_[1][1].endswith('String::is_empty') and core(c_[1][2][0]) == fld('name'))
    sy = guard_sel(g, lambda c_: c_[0] == 'false' and c_[1][0] == 'call' and c_[1][1].endswith('String::is_empty') and core(c_[1][2][0]) == fld('symbol'))
    return [('decimals <= 255', dec), ('name non-empty', nm), ('symbol non-empty', sy)]


def is_u8_max(t):
    t = core(t)
    if const_int(t) == 255:
        return True
    # u8::MAX.into()
    for x in subterms(t):
        v = const_value(x)
        if v is not None and (v.startswith('255_') or 'u8::MAX' in v or v == 'core::num::<impl u8>::MAX'):
            return True
        if x[0] == 'const' and len(x) > 2 and str(x[2]).endswith('u8>::MAX'):
            return True
    return False
