"""Rewrites iterator pipelines that end in an eager consumer taking a workspace closure

    base.[map(f) | filter(p) | filter_map(g)]* . (for_each(c) | try_for_each(c) | all(c) | any(c) | fold(init, c) | try_fold(init, c))

on the loaded MIR facts into the explicit

    loop { match base.next() { Some(x) => { x = f(x); if !p(&x) { continue }; ...; <body of c> }, None => break } }

that a `for` loop with `continue`s compiles to: every closure body is spliced into the caller and its captured variables are replaced
by the caller's own places.

Why: the loop of these library functions lives in core; treating them as opaque leaves loses (a) the early exit of try_for_each / all /
any / try_fold, (b) state that a closure keeps in captured `&mut` variables across iterations (running sums, "previous element"), (c)
which elements reach the consumer behind a filter.  After the rewrite the ordinary machinery (reaching definitions, def-use terms,
abstract store) sees the same program shape as for the `for` loop, so a maintainer's loop <-> iterator-chain refactoring does not
change any verdict.

The rewrite is purely structural (no evaluation); when a precondition is not met the call is left alone (the generic, coarser
"closure may be called by this leaf" model applies).  Result<_, _> is the only Try type handled for try_for_each / try_fold.
"""
import copy
import re

CONSUMER = re.compile(r'^\w+::<(.+) as core::iter::Iterator>::(for_each|try_for_each|all|any|fold|try_fold|find|find_map|position)::<')
ADAPTOR = re.compile(r'^\w+::<(.+) as core::iter::Iterator>::(map|filter|filter_map)::<')
_AD_TY = r'(?:core::iter::(?:adapters::\w+::|sources::\w+::)?(?:Map|Filter|FilterMap|Zip|Chain|Enumerate|Copied|Cloned|Inspect|TakeWhile|MapWhile|Flatten|Once)|core::array::IntoIter|core::option::IntoIter|core::slice::Iter)<.+>'
STRUCT_AD = re.compile(r'^\w+::<(.+) as core::iter::Iterator>::(map|filter|filter_map|zip|chain|inspect|take_while|map_while)::<')
COLLECT_UNIT = re.compile(r'^\w+::<(.+) as core::iter::Iterator>::collect::<(core::result::Result<\(\), .+>)>$')
SIMPLE_AD = re.compile(r'^\w+::<(.+) as core::iter::Iterator>::(copied|cloned|fuse|enumerate)(::<.*>)?$')
ANY_INTO_ITER = re.compile(r'^\w+::<(.+) as core::iter::IntoIterator>::into_iter$')
ITER_TY = re.compile(r'^(core::iter::|soroban_sdk::iter::|soroban_sdk::vec::\w*Iter|core::slice::Iter|core::option::(IntoIter|Iter)<|core::array::IntoIter<|core::ops::Range<)')


def split_tuple(ty):
    """component types of a tuple type string `(A, B, ..)` (None when it is not one)"""
    if not (ty.startswith('(') and ty.endswith(')')):
        return None
    out, depth, cur = [], 0, ''
    for ch in ty[1:-1]:
        if ch in '<([':
            depth += 1
        elif ch in '>)]':
            depth -= 1
        if ch == ',' and depth == 0:
            out.append(cur.strip())
            cur = ''
        else:
            cur += ch
    if cur.strip():
        out.append(cur.strip())
    return out
NEXT_ADAPTOR = re.compile(r'^\w+::<(' + _AD_TY + r') as core::iter::Iterator>::next$')
INTO_ITER_ID = re.compile(r'^\w+::<(' + _AD_TY + r') as core::iter::IntoIterator>::into_iter$')


def op_local(o):
    if o['k'] in ('copy', 'move') and not o['pl'].get('p'):
        return o['pl']['l']
    return None


def _defs_of(body, local):
    """definition sites of the local itself (not of its pointee): ('assign', stmt) / ('call', block index)"""
    found = []
    for bi, b in enumerate(body['blocks']):
        if b['cleanup']:
            continue
        for s in b['st']:
            if s['s'] == 'assign' and s['pl']['l'] == local:
                if s['pl'].get('p') and s['pl']['p'][0] == '*':
                    continue          # writes the pointee, not the local itself
                found.append(('assign', s) if not s['pl'].get('p') else ('partial', s))
        t = b['term']
        if t['t'] == 'call' and t['dest']['l'] == local:
            found.append(('call', bi) if not t['dest'].get('p') else ('partial', bi))
    return found


def _single_assign(body, local):
    """the unique plain assignment `local = rv` of the body (None if not exactly one definition site)"""
    d = _defs_of(body, local)
    if len(d) == 1 and d[0][0] == 'assign':
        return d[0][1]['rv']
    return None


def _closure_root(body, l):
    """the local in which a closure value was built, followed back through plain moves / copies of the variable"""
    for _ in range(6):
        rv = _single_assign(body, l)
        if rv is not None and rv['r'] == 'use' and op_local(rv['o']) is not None:
            l = op_local(rv['o'])
            continue
        break
    return l


def _ref_root(body, l):
    """the local borrowed by the reference held in l (followed through reborrows `&mut *r`)"""
    for _ in range(4):
        rv = _single_assign(body, l)
        if rv is None or rv['r'] != 'ref':
            return None
        p = rv['pl'].get('p') or []
        if not p:
            return rv['pl']['l']
        if p != ['*']:
            return None
        l = rv['pl']['l']
    return None


class Bail(Exception):
    pass


def _next_callee(insts, iter_ty):
    want = '<%s as core::iter::Iterator>::next' % iter_ty
    for i in insts.values():
        for b in i['blocks']:
            t = b['term']
            if t['t'] == 'call' and t['callee'].endswith(want):
                return dict(callee=t['callee'], cdef=t.get('cdef', ''), crate=t.get('crate', ''), self_adt=t.get('self_adt', ''))
    cr = 'soroban_sdk' if iter_ty.startswith('soroban_sdk::') else 'core'
    return dict(callee='%s::%s' % (cr, want), cdef=want, crate=cr, self_adt='')


def _uses(body, local, skip_blocks=()):
    """number of operand / place uses of `local` other than StorageDead, drops and the listed call blocks"""
    n = 0

    def pl_uses(pl):
        return 1 if pl['l'] == local else 0

    def op_uses(o):
        return pl_uses(o['pl']) if o['k'] in ('copy', 'move') else 0
    for bi, b in enumerate(body['blocks']):
        if b['cleanup']:
            continue
        for s in b['st']:
            if s['s'] != 'assign':
                continue
            rv = s['rv']
            for k in ('o', 'a', 'b'):
                if isinstance(rv.get(k), dict) and 'k' in rv[k]:
                    n += op_uses(rv[k])
            if 'pl' in rv:
                n += pl_uses(rv['pl'])
            for o in rv.get('ops', []):
                n += op_uses(o)
            if s['pl'].get('p'):
                n += pl_uses(s['pl'])
        t = b['term']
        if bi in skip_blocks:
            continue
        if t['t'] == 'call':
            for a in t['args']:
                n += op_uses(a)
        elif t['t'] == 'switch':
            n += op_uses(t['d'])
        elif t['t'] == 'assert':
            n += op_uses(t['c'])
    return n


class Rewriter:
    def __init__(self, insts, body, done):
        self.insts = insts
        self.body = body
        self.done = done
        self.pre = []          # statements executed once, before the loop
        self.new = []          # newly appended blocks (for the final resolution of symbolic targets)
        self.names = {}        # symbolic block name -> index

    def newlocal(self, ty):
        self.body['locals'].append(ty)
        return len(self.body['locals']) - 1

    def add_block(self, name, st, term):
        b = {'cleanup': False, 'st': st, 'term': term}
        self.body['blocks'].append(b)
        self.new.append(b)
        if name is not None:
            self.names[name] = len(self.body['blocks']) - 1
        return len(self.body['blocks']) - 1

    def resolve(self):
        def r(x):
            return self.names[x] if isinstance(x, str) else x
        for b in self.new:
            t = b['term']
            if 'to' in t:
                t['to'] = r(t['to'])
            if t['t'] == 'switch':
                t['arms'] = [[v, r(x)] for v, x in t['arms']]
                t['otherwise'] = r(t['otherwise'])

    # ------------------------------------------------------------------------------------------------------------------
    def splice(self, ckey, closure_local, ret_to, at):
        """append the body of closure instance ckey (value held by closure_local, built in this body) with its captures replaced by
        the caller's places; every `return` becomes `goto ret_to`.  Returns (entry block index, local offset L0)."""
        insts, body = self.insts, self.body
        cbody = insts[ckey]
        inline_body(insts, cbody, self.done)
        plain = closure_local is None          # an ordinary function: local 1 is just its first parameter
        crv = None
        if not plain:
            closure_local = _closure_root(body, closure_local)
            crv = _single_assign(body, closure_local)
            if crv is None or crv['r'] != 'agg' or crv.get('kind') != 'closure':
                raise Bail('closure value is not built in this body')
        caps = crv['ops'] if crv else []
        env_is_ref = (not plain) and cbody['locals'][1].startswith('&')
        cache = body.setdefault('_closure_caps', {})
        cap_place = cache.get(closure_local) if not plain else {}
        if cap_place is None:
            cap_place = {}  # capture index -> ('ref', place, mut) | ('val', local)
            inits = []
            for i, o in enumerate(caps):
                l = op_local(o)
                rv = _single_assign(body, l) if l is not None else None
                if rv is not None and rv['r'] == 'ref':
                    cap_place[i] = ('ref', rv['pl'], rv.get('mut', False))
                else:
                    # captured by value: the closure owns a copy, initialised where the closure is created and shared by all its calls
                    ty = body['locals'][l] if l is not None else o.get('ty', '?')
                    nlc = self.newlocal(ty)
                    inits.append({'s': 'assign', 'pl': {'l': nlc}, 'rv': {'r': 'use', 'o': o}, 'at': at})
                    cap_place[i] = ('val', nlc)
            if inits:
                placed = False
                for b in body['blocks']:
                    for si, st_ in enumerate(b['st']):
                        if st_['s'] == 'assign' and st_['pl'] == {'l': closure_local} and st_['rv'] is crv:
                            b['st'][si + 1:si + 1] = inits
                            placed = True
                            break
                    if placed:
                        break
                if not placed:
                    raise Bail('closure creation site not found')
            cache[closure_local] = cap_place
        L0 = len(body['locals'])
        body['locals'].extend(cbody['locals'])
        B0 = len(body['blocks'])
        P0 = len(body['promoted'])
        body['promoted'].extend(copy.deepcopy(cbody['promoted']))
        def is_env_field(pl):
            """(capture index, remaining projection) if the place goes through the closure environment"""
            if plain or pl['l'] != 1:
                return None
            p = pl.get('p', [])
            if env_is_ref:
                if not p or p[0] != '*':
                    return None
                p = p[1:]
            if not p or not isinstance(p[0], dict) or 'f' not in p[0]:
                return None
            return p[0]['f'], p[1:]

        # temporaries of the closure body that are plain copies of a by-reference capture: `_t = (*_1).i`
        alias = {}
        for b in cbody['blocks']:
            for s in b['st']:
                if s['s'] == 'assign' and not s['pl'].get('p') and s['rv']['r'] == 'use' and s['rv']['o']['k'] in ('copy', 'move'):
                    ef = is_env_field(s['rv']['o']['pl'])
                    if ef and not ef[1] and cap_place.get(ef[0], ('x',))[0] == 'ref':
                        if _single_assign(cbody, s['pl']['l']) is not None:
                            alias[s['pl']['l']] = ef[0]

        def onto(base, rest):
            q = list(base.get('p', [])) + list(rest)
            return {'l': base['l'], 'p': q} if q else {'l': base['l']}

        def map_place(pl):
            p = list(pl.get('p', []))
            ef = is_env_field(pl)
            if ef is not None:
                i, rest = ef
                cp = cap_place.get(i)
                if cp is None:
                    raise Bail('capture index')
                if cp[0] == 'val':
                    return {'l': cp[1], 'p': rest} if rest else {'l': cp[1]}
                if rest and rest[0] == '*':
                    return onto(cp[1], rest[1:])
                raise Bail('by-reference capture used as a value')
            if pl['l'] == 1 and not plain:
                raise Bail('closure environment used as a whole')
            if pl['l'] in alias and p and p[0] == '*':
                return onto(cap_place[alias[pl['l']]][1], p[1:])
            out = {'l': L0 + pl['l']}
            if p:
                out['p'] = p
            return out

        def map_op(o):
            if o['k'] in ('copy', 'move'):
                return {'k': o['k'], 'pl': map_place(o['pl'])}
            o = dict(o)
            if 'promoted' in o:
                o['promoted'] = P0 + o['promoted']
            return o

        def map_rv(rv):
            rv = dict(rv)
            k = rv['r']
            if k == 'use':
                o = rv['o']
                if o['k'] in ('copy', 'move'):
                    ef = is_env_field(o['pl'])
                    if ef and not ef[1] and cap_place.get(ef[0], ('x',))[0] == 'ref':
                        # copy of a captured reference: a fresh reference to the caller's variable
                        cp = cap_place[ef[0]]
                        return {'r': 'ref', 'mut': cp[2], 'pl': cp[1]}
                rv['o'] = map_op(o)
            elif k in ('ref', 'rawptr', 'discr'):
                rv['pl'] = map_place(rv['pl'])
            elif k == 'bin':
                rv['a'] = map_op(rv['a'])
                rv['b'] = map_op(rv['b'])
            elif k in ('un', 'cast', 'repeat'):
                rv['a'] = map_op(rv['a'])
            elif k == 'agg':
                rv['ops'] = [map_op(o) for o in rv['ops']]
            elif 'pl' in rv or 'o' in rv or 'a' in rv:
                raise Bail('rvalue %s' % k)
            return rv

        newblocks = []
        for ob in cbody['blocks']:
            st = []
            for s in ob['st']:
                if s['s'] == 'assign':
                    st.append({'s': 'assign', 'pl': map_place(s['pl']), 'rv': map_rv(s['rv']), 'at': s.get('at')})
                elif s['s'] == 'dead':
                    if s['l'] == 1 and not plain:
                        continue
                    st.append({'s': 'dead', 'l': L0 + s['l']})
                else:
                    s2 = dict(s)
                    if 'pl' in s2:
                        s2['pl'] = map_place(s2['pl'])
                    st.append(s2)
            ot = ob['term']
            tt = dict(ot)
            tt.pop('_noinline', None)      # what could not be rewritten in the callee alone may be rewritable with the caller's values in sight
            k = ot['t']
            if k == 'return':
                tt = {'t': 'goto', 'to': ret_to}
            elif k == 'goto':
                tt['to'] = B0 + ot['to']
            elif k == 'drop':
                if ot['pl']['l'] == 1 and not plain:
                    tt = {'t': 'goto', 'to': B0 + ot['to']}
                else:
                    tt['pl'] = map_place(ot['pl'])
                    tt['to'] = B0 + ot['to']
            elif k == 'assert':
                tt['c'] = map_op(ot['c'])
                tt['to'] = B0 + ot['to']
            elif k == 'switch':
                tt['d'] = map_op(ot['d'])
                tt['arms'] = [[v, B0 + b] for v, b in ot['arms']]
                tt['otherwise'] = B0 + ot['otherwise']
            elif k == 'call':
                tt['args'] = [map_op(a) for a in ot['args']]
                if ot.get('func'):
                    tt['func'] = map_op(ot['func'])
                tt['dest'] = map_place(ot['dest'])
                tt['to'] = B0 + ot['to'] if ot['to'] >= 0 else -1
            elif k in ('unreachable', 'resume', 'abort'):
                pass
            else:
                raise Bail('terminator %s' % k)
            newblocks.append({'cleanup': ob['cleanup'], 'st': st, 'term': tt})
        body['blocks'].extend(newblocks)
        self.new.extend(newblocks)
        # debug names of the closure's own locals (never override the caller's)
        for n, pl in cbody.get('names', {}).items():
            if not pl.get('p') and (plain or pl['l'] != 1) and n not in body['names']:
                body['names'][n] = {'l': L0 + pl['l']}
        if not plain:
            body.setdefault('inlined_iter_closures', []).append(ckey)
        return B0, L0, cbody

    # ------------------------------------------------------------------------------------------------------------------
    def _uniq(self, base):
        self._n = getattr(self, '_n', 0) + 1
        return '%s_%d' % (base, self._n)

    def source_def(self, it, neutralise):
        """the leaf call that built the iterator held in local `it`, followed back through moves of the variable and the identity
        `into_iter()` of iterator types: ((call block, term) or None, the local that holds the iterator value)"""
        body = self.body
        cur = it
        for _ in range(8):
            d = _defs_of(body, cur)
            if len(d) != 1:
                return None, cur
            if d[0][0] == 'assign':
                rv = d[0][1]['rv']
                if rv['r'] == 'use' and rv['o']['k'] == 'move' and op_local(rv['o']) is not None:
                    cur = op_local(rv['o'])
                    continue
                return None, cur
            if d[0][0] != 'call':
                return None, cur
            cb = d[0][1]
            ct = body['blocks'][cb]['term']
            if not ct.get('leaf') or ct['to'] < 0:
                return None, cur
            m = ANY_INTO_ITER.match(ct['callee'])
            if m and len(ct['args']) == 1 and ITER_TY.match(m.group(1)):
                inner = op_local(ct['args'][0])
                if inner is None:
                    return None, cur
                neutralise.append(cb)
                cur = inner
                continue
            return (cb, ct), cur
        return None, cur

    def gen_pull(self, it, elem_ty, on_some, on_none, at, neutralise, depth=0):
        """blocks that pull ONE element from the iterator held in local `it`, following the structure of the adaptors it was built
        from in this body: map / filter / filter_map apply their function here, `zip` pulls from both sides, `chain` from the first
        side until it is exhausted (a flag set at that moment, cleared where the chain was built) and then from the second, `once`
        yields its value while its flag is clear; any other iterator value is advanced by its own `next()`.  Control continues at
        on_some with the element in the returned local, or at on_none.  Returns (start label, element local, structured?)."""
        body = self.body
        blocks = body['blocks']
        if depth > 8:
            raise Bail('iterator structure too deep')
        A = lambda pl, rv: {'s': 'assign', 'pl': pl, 'rv': rv, 'at': at}
        use = lambda o: {'r': 'use', 'o': o}
        mv = lambda l, p=None: {'k': 'move', 'pl': ({'l': l, 'p': p} if p else {'l': l})}
        cbool = lambda v: {'k': 'const', 'ty': 'bool', 'v': 'true' if v else 'false'}
        found, cur = self.source_def(it, neutralise)
        start = self._uniq('P')
        if found:
            cb, ct = found
            cal = ct['callee']
            tys = ct.get('argtys', [])
            m = STRUCT_AD.match(cal)
            if m and len(ct['args']) == 2 and m.group(2) in ('map', 'filter', 'filter_map'):
                kind = m.group(2)
                inner = op_local(ct['args'][0])
                if inner is None:
                    raise Bail('adaptor operand is not a local')
                sid = self._uniq('g')
                sd = self.prepare_stage(sid, kind, self.stage_of(ct), at)
                neutralise.append(cb)
                pty = sd['param_ty']
                in_ty = pty[1:] if kind == 'filter' and pty.startswith('&') else pty
                got = self._uniq('GOT')
                istart, x, _ = self.gen_pull(inner, in_ty, got, on_none, at, neutralise, depth + 1)
                ret, ret_ty = sd['ret'], sd['ret_ty']
                if kind == 'map':
                    self.add_block(got, [A({'l': sd['param']}, use(mv(x)))], {'t': 'goto', 'to': sd['entry']})
                    y = self.newlocal(ret_ty)
                    self.add_block('R%s' % sid, [A({'l': y}, use(mv(ret)))], {'t': 'goto', 'to': on_some})
                    return istart, y, True
                if kind == 'filter':
                    self.add_block(got, [A({'l': sd['param']}, {'r': 'ref', 'mut': False, 'pl': {'l': x}})], {'t': 'goto', 'to': sd['entry']})
                    self.add_block('R%s' % sid, [], {'t': 'switch', 'd': mv(ret), 'dty': 'bool', 'arms': [[0, istart]], 'otherwise': on_some, 'at': at})
                    return istart, x, True
                if not ret_ty.startswith('core::option::Option<'):
                    raise Bail('filter_map closure type')
                self.add_block(got, [A({'l': sd['param']}, use(mv(x)))], {'t': 'goto', 'to': sd['entry']})
                d_i = self.newlocal('isize')
                yes = self._uniq('Y')
                unr = self._uniq('UNR')
                self.add_block('R%s' % sid, [A({'l': d_i}, {'r': 'discr', 'pl': {'l': ret}, 'ty': ret_ty})],
                               {'t': 'switch', 'd': mv(d_i), 'dty': 'isize', 'arms': [[0, istart], [1, yes]], 'otherwise': unr, 'at': at})
                y = self.newlocal(ret_ty[len('core::option::Option<'):-1])
                self.add_block(yes, [A({'l': y}, use(mv(ret, [{'v': 1, 'n': 'Some'}, {'f': 0, 'n': '0'}])))], {'t': 'goto', 'to': on_some})
                self.add_block(unr, [], {'t': 'unreachable'})
                return istart, y, True
            if m and len(ct['args']) == 2 and m.group(2) in ('inspect', 'take_while', 'map_while'):
                kind = m.group(2)
                inner = op_local(ct['args'][0])
                if inner is None:
                    raise Bail('adaptor operand is not a local')
                sid = self._uniq('g')
                sd = self.prepare_stage(sid, kind, self.stage_of(ct), at)
                neutralise.append(cb)
                pty = sd['param_ty']
                by_ref = kind in ('inspect', 'take_while')
                in_ty = pty[1:] if by_ref and pty.startswith('&') else pty
                got = self._uniq('GOT')
                ret, ret_ty = sd['ret'], sd['ret_ty']
                if kind == 'inspect':
                    istart, x, _ = self.gen_pull(inner, in_ty, got, on_none, at, neutralise, depth + 1)
                    self.add_block(got, [A({'l': sd['param']}, {'r': 'ref', 'mut': False, 'pl': {'l': x}})], {'t': 'goto', 'to': sd['entry']})
                    self.add_block('R%s' % sid, [], {'t': 'goto', 'to': on_some})
                    return istart, x, True
                # take_while / map_while stop for good at the first rejected element
                flag = self.newlocal('bool')
                blocks[cb]['st'] = blocks[cb]['st'] + [A({'l': flag}, use(cbool(False)))]
                stop = self._uniq('STOP')
                istart, x, _ = self.gen_pull(inner, in_ty, got, on_none, at, neutralise, depth + 1)
                self.add_block(start, [], {'t': 'switch', 'd': {'k': 'copy', 'pl': {'l': flag}}, 'dty': 'bool', 'arms': [[0, istart]], 'otherwise': on_none, 'at': at})
                self.add_block(stop, [A({'l': flag}, use(cbool(True)))], {'t': 'goto', 'to': on_none})
                if kind == 'take_while':
                    self.add_block(got, [A({'l': sd['param']}, {'r': 'ref', 'mut': False, 'pl': {'l': x}})], {'t': 'goto', 'to': sd['entry']})
                    self.add_block('R%s' % sid, [], {'t': 'switch', 'd': mv(ret), 'dty': 'bool', 'arms': [[0, stop]], 'otherwise': on_some, 'at': at})
                    return start, x, True
                if not ret_ty.startswith('core::option::Option<'):
                    raise Bail('map_while closure type')
                self.add_block(got, [A({'l': sd['param']}, use(mv(x)))], {'t': 'goto', 'to': sd['entry']})
                d_i = self.newlocal('isize')
                yes, unr = self._uniq('Y'), self._uniq('UNR')
                self.add_block('R%s' % sid, [A({'l': d_i}, {'r': 'discr', 'pl': {'l': ret}, 'ty': ret_ty})],
                               {'t': 'switch', 'd': mv(d_i), 'dty': 'isize', 'arms': [[0, stop], [1, yes]], 'otherwise': unr, 'at': at})
                y = self.newlocal(ret_ty[len('core::option::Option<'):-1])
                self.add_block(yes, [A({'l': y}, use(mv(ret, [{'v': 1, 'n': 'Some'}, {'f': 0, 'n': '0'}])))], {'t': 'goto', 'to': on_some})
                self.add_block(unr, [], {'t': 'unreachable'})
                return start, y, True
            ms = SIMPLE_AD.match(cal)
            if ms and len(ct['args']) == 1:
                inner = op_local(ct['args'][0])
                if inner is None:
                    raise Bail('adaptor operand is not a local')
                if ms.group(2) in ('copied', 'cloned', 'fuse'):
                    # the same elements (copies of the referents are the same values in terms)
                    in_ty = elem_ty if ms.group(2) == 'fuse' else '&' + elem_ty
                    istart, x, _ = self.gen_pull(inner, in_ty, on_some, on_none, at, neutralise, depth + 1)
                    neutralise.append(cb)
                    return istart, x, True
                # enumerate: a counter that starts at 0 where the adaptor is built and advances by one per element
                parts = split_tuple(elem_ty)
                if not parts or len(parts) != 2:
                    raise Bail('enumerate element type')
                cnt = self.newlocal('usize')
                blocks[cb]['st'] = blocks[cb]['st'] + [A({'l': cnt}, use({'k': 'const', 'ty': 'usize', 'v': '0_usize'}))]
                got = self._uniq('GOT')
                istart, x, _ = self.gen_pull(inner, parts[1], got, on_none, at, neutralise, depth + 1)
                i = self.newlocal('usize')
                tmp = self.newlocal('(usize, bool)')
                pair = self.newlocal(elem_ty)
                self.add_block(got, [A({'l': i}, use({'k': 'copy', 'pl': {'l': cnt}})),
                                     A({'l': tmp}, {'r': 'bin', 'op': 'AddWithOverflow', 'a': {'k': 'copy', 'pl': {'l': cnt}}, 'b': {'k': 'const', 'ty': 'usize', 'v': '1_usize'}}),
                                     A({'l': cnt}, use(mv(tmp, [{'f': 0, 'n': '0'}]))),
                                     A({'l': pair}, {'r': 'agg', 'kind': 'tuple', 'ops': [mv(i), mv(x)]})], {'t': 'goto', 'to': on_some})
                neutralise.append(cb)
                return istart, pair, True
            if m and len(ct['args']) == 2 and m.group(2) in ('zip', 'chain'):
                a, b = op_local(ct['args'][0]), op_local(ct['args'][1])
                if a is None or b is None or len(tys) < 2 or not ITER_TY.match(tys[1]):
                    raise Bail('zip/chain operand')
                if m.group(2) == 'zip':
                    parts = split_tuple(elem_ty)
                    if not parts or len(parts) != 2:
                        raise Bail('zip element type')
                    got_a, got_b = self._uniq('GA'), self._uniq('GB')
                    sa, xa, _ = self.gen_pull(a, parts[0], got_a, on_none, at, neutralise, depth + 1)
                    sb, xb, _ = self.gen_pull(b, parts[1], got_b, on_none, at, neutralise, depth + 1)
                    self.add_block(got_a, [], {'t': 'goto', 'to': sb})
                    pair = self.newlocal(elem_ty)
                    self.add_block(got_b, [A({'l': pair}, {'r': 'agg', 'kind': 'tuple', 'ops': [mv(xa), mv(xb)]})], {'t': 'goto', 'to': on_some})
                    neutralise.append(cb)
                    return sa, pair, True
                flag = self.newlocal('bool')
                blocks[cb]['st'] = blocks[cb]['st'] + [A({'l': flag}, use(cbool(False)))]
                x = self.newlocal(elem_ty)
                got_a, got_b, none_a = self._uniq('GA'), self._uniq('GB'), self._uniq('NA')
                sa, xa, _ = self.gen_pull(a, elem_ty, got_a, none_a, at, neutralise, depth + 1)
                sb, xb, _ = self.gen_pull(b, elem_ty, got_b, on_none, at, neutralise, depth + 1)
                self.add_block(start, [], {'t': 'switch', 'd': {'k': 'copy', 'pl': {'l': flag}}, 'dty': 'bool', 'arms': [[0, sa]], 'otherwise': sb, 'at': at})
                self.add_block(got_a, [A({'l': x}, use(mv(xa)))], {'t': 'goto', 'to': on_some})
                self.add_block(none_a, [A({'l': flag}, use(cbool(True)))], {'t': 'goto', 'to': sb})
                self.add_block(got_b, [A({'l': x}, use(mv(xb)))], {'t': 'goto', 'to': on_some})
                neutralise.append(cb)
                return start, x, True
            if re.search(r'core::iter::(sources::once::)?once::<', cal) and len(ct['args']) == 1:
                flag = self.newlocal('bool')
                blocks[cb]['st'] = blocks[cb]['st'] + [A({'l': flag}, use(cbool(False)))]
                x = self.newlocal(elem_ty)
                some = self._uniq('ONCE')
                v = ct['args'][0]
                vl = op_local(v)
                if vl is not None:
                    for b2 in blocks:
                        b2['st'] = [s_ for s_ in b2['st'] if not (s_['s'] == 'dead' and s_.get('l') == vl)]
                self.add_block(start, [], {'t': 'switch', 'd': {'k': 'copy', 'pl': {'l': flag}}, 'dty': 'bool', 'arms': [[0, some]], 'otherwise': on_none, 'at': at})
                self.add_block(some, [A({'l': flag}, use(cbool(True))), A({'l': x}, use(v))], {'t': 'goto', 'to': on_some})
                neutralise.append(cb)
                return start, x, True
        # any other iterator value: its own next()
        iter_ty = body['locals'][cur]
        if iter_ty.startswith('&'):
            raise Bail('iterator held by reference')
        if not re.match(r'^(core|alloc|std|soroban_sdk|alloy_\w+|ruint)::', iter_ty):
            # a hand-written iterator: its `next()` is workspace code, not a library leaf - leave the original call alone (it is reported
            # as an opaque effect by the leaf model)
            raise Bail('not a library iterator: %s' % iter_ty[:60])
        nx = _next_callee(self.insts, iter_ty)
        opt_ty = 'core::option::Option<%s>' % elem_ty
        l_ref = self.newlocal('&mut ' + iter_ty)
        l_opt = self.newlocal(opt_ty)
        l_d = self.newlocal('isize')
        x = self.newlocal(elem_ty)
        sw, el, unr = self._uniq('S'), self._uniq('E'), self._uniq('UNR')
        self.add_block(start, [A({'l': l_ref}, {'r': 'ref', 'mut': True, 'pl': {'l': cur}})],
                       {'t': 'call', 'callee': nx['callee'], 'cdef': nx['cdef'], 'leaf': True, 'crate': nx['crate'], 'closure_call': False,
                        'self_adt': nx['self_adt'], 'closures': [], 'args': [mv(l_ref)], 'argtys': [body['locals'][l_ref]],
                        'dest': {'l': l_opt}, 'to': sw, 'at': at})
        self.add_block(sw, [A({'l': l_d}, {'r': 'discr', 'pl': {'l': l_opt}, 'ty': opt_ty})],
                       {'t': 'switch', 'd': mv(l_d), 'dty': 'isize', 'arms': [[0, on_none], [1, el]], 'otherwise': unr, 'at': at})
        self.add_block(el, [A({'l': x}, use(mv(l_opt, [{'v': 1, 'n': 'Some'}, {'f': 0, 'n': '0'}])))], {'t': 'goto', 'to': on_some})
        self.add_block(unr, [], {'t': 'unreachable'})
        return start, x, False

    def stage_of(self, ct):
        """the function an adaptor applies: ('fn', instance key) for a function item, ('closure', key, local) for a closure"""
        f = ct['args'][-1]
        if f['k'] == 'const' and f.get('fnkey') in self.insts:
            return ('fn', f['fnkey'])
        ck, cl = self.closure_of(ct)
        return ('closure', ck, cl)

    def prepare_stage(self, i, kind, spec, at):
        """blocks computing stage i; its result is in 'ret' when control reaches the symbolic block R<i>"""
        if spec[0] == 'closure':
            B0, L0, sbody = self.splice(spec[1], spec[2], 'R%s' % i, at)
            return dict(kind=kind, entry=B0, param=L0 + 2, ret=L0, ret_ty=sbody['locals'][0], param_ty=sbody['locals'][2])
        fb = self.insts[spec[1]]
        if fb.get('argc') != 1:
            raise Bail('adaptor function arity')
        p = self.newlocal(fb['locals'][1])
        r = self.newlocal(fb['locals'][0])
        entry = self.add_block(None, [], {'t': 'call', 'callee': spec[1], 'cdef': fb.get('def', ''), 'leaf': False, 'crate': fb.get('crate', ''),
                                          'closure_call': False, 'self_adt': '', 'closures': [], 'args': [{'k': 'move', 'pl': {'l': p}}],
                                          'argtys': [fb['locals'][1]], 'dest': {'l': r}, 'to': 'R%s' % i, 'at': at})
        return dict(kind=kind, entry=entry, param=p, ret=r, ret_ty=fb['locals'][0], param_ty=fb['locals'][1])

    def emit_stages(self, staged, x, at, last):
        """PRE<i>/R<i> glue between the stages; a rejected element goes back to H; returns the local holding the final element"""
        A = lambda pl, rv: {'s': 'assign', 'pl': pl, 'rv': rv, 'at': at}
        use = lambda o: {'r': 'use', 'o': o}
        mv = lambda l, p=None: {'k': 'move', 'pl': ({'l': l, 'p': p} if p else {'l': l})}
        for i, sd in enumerate(staged):
            nxt = 'PRE%d' % (i + 1) if i + 1 < len(staged) else last
            sk, ret, ret_ty = sd['kind'], sd['ret'], sd['ret_ty']
            if sk == 'map':
                self.add_block('PRE%d' % i, [A({'l': sd['param']}, use(mv(x)))], {'t': 'goto', 'to': sd['entry']})
                x2 = self.newlocal(ret_ty)
                self.add_block('R%d' % i, [A({'l': x2}, use(mv(ret)))], {'t': 'goto', 'to': nxt})
                x = x2
            elif sk == 'filter':
                self.add_block('PRE%d' % i, [A({'l': sd['param']}, {'r': 'ref', 'mut': False, 'pl': {'l': x}})], {'t': 'goto', 'to': sd['entry']})
                self.add_block('R%d' % i, [], {'t': 'switch', 'd': mv(ret), 'dty': 'bool', 'arms': [[0, 'H']], 'otherwise': nxt, 'at': at})
            else:   # filter_map
                if not ret_ty.startswith('core::option::Option<'):
                    raise Bail('filter_map closure type')
                self.add_block('PRE%d' % i, [A({'l': sd['param']}, use(mv(x)))], {'t': 'goto', 'to': sd['entry']})
                d_i = self.newlocal('isize')
                self.add_block('R%d' % i, [A({'l': d_i}, {'r': 'discr', 'pl': {'l': ret}, 'ty': ret_ty})],
                               {'t': 'switch', 'd': mv(d_i), 'dty': 'isize', 'arms': [[0, 'H'], [1, 'Y%d' % i]], 'otherwise': 'UNR', 'at': at})
                x2 = self.newlocal(ret_ty[len('core::option::Option<'):-1])
                self.add_block('Y%d' % i, [A({'l': x2}, use(mv(ret, [{'v': 1, 'n': 'Some'}, {'f': 0, 'n': '0'}])))], {'t': 'goto', 'to': nxt})
                x = x2
        return x

    def rewrite_next(self, bi):
        """`it.next()` where `it` was built in this body from adaptors (the header of a `for` loop over `base.map(f)`, `a.zip(b)`,
        `once(x).chain(..)`, ...): pull from the underlying iterators and apply the adaptors here (gen_pull), so that the element the
        loop body sees is a term over the base elements and the adaptor functions' effects are ordinary code of this body"""
        body = self.body
        blocks = body['blocks']
        t = blocks[bi]['term']
        at = t.get('at')
        if t['to'] < 0 or len(t['args']) != 1 or t['dest'].get('p'):
            raise Bail('next shape')
        a0 = op_local(t['args'][0])
        root = _ref_root(body, a0) if a0 is not None else None
        if root is None:
            raise Bail('iterator reference')
        # the iterator variable is advanced at this site only (one `&mut` borrow in the whole body)
        if _uses(body, root) != 1:
            raise Bail('iterator variable has other uses')
        dty = body['locals'][t['dest']['l']]
        if not dty.startswith('core::option::Option<'):
            raise Bail('next result type')
        # a statically known source (`for x in [a, b]`, `once(a).chain(opt)`, `[Some(a), b].into_iter().flatten()`): unroll the loop
        tmp = []
        found, cur = self.source_def(root, tmp)
        if found:
            tmp2 = []
            elems = self.static_source(cur, tmp2)
            if elems is not None:
                self.unroll_static_for(bi, elems, tmp + tmp2)
                return
        elem_ty = dty[len('core::option::Option<'):-1]
        neutralise = []
        start, x, structured = self.gen_pull(root, elem_ty, 'SOME', 'NONE', at, neutralise)
        if not structured:
            raise Bail('no adaptor structure found')
        A = lambda pl, rv: {'s': 'assign', 'pl': pl, 'rv': rv, 'at': at}

        def opt(variant, vidx, ops):
            return {'r': 'agg', 'kind': 'adt', 'adt': 'core::option::Option', 'variant': variant, 'vidx': vidx,
                    'fields': ['0'] if ops else [], 'is_enum': True, 'ops': ops}
        self.add_block('SOME', [A(t['dest'], opt('Some', 1, [{'k': 'move', 'pl': {'l': x}}]))], {'t': 'goto', 'to': t['to']})
        self.add_block('NONE', [A(t['dest'], opt('None', 0, []))], {'t': 'goto', 'to': t['to']})
        self.resolve()
        for cb in neutralise:
            blocks[cb]['term'] = {'t': 'goto', 'to': blocks[cb]['term']['to']}
        blocks[bi]['term'] = {'t': 'goto', 'to': self.names[start]}

    def unroll_static_for(self, bi, elems, neutralise):
        """the `next()` in the header of a loop over a statically known list of elements: the loop body once per element, in order (an
        Option element only when it is Some), then the exit path of the loop"""
        body = self.body
        blocks = body['blocks']
        t = blocks[bi]['term']
        at = t.get('at')
        T0, dest = t['to'], t['dest']

        def succs(b):
            tt = b['term']
            if tt['t'] == 'switch':
                return [x for _, x in tt['arms']] + [tt['otherwise']]
            if isinstance(tt.get('to'), int) and tt['to'] >= 0:
                return [tt['to']]
            return []
        fwd, st = set(), [T0]
        while st:
            x = st.pop()
            if x in fwd or x == bi or blocks[x]['cleanup']:
                continue
            fwd.add(x)
            st.extend(succs(blocks[x]))
        pred = {}
        for x in fwd | {bi}:
            for s_ in succs(blocks[x]):
                pred.setdefault(s_, []).append(x)
        back, st = set(), [bi]
        while st:
            x = st.pop()
            for p_ in pred.get(x, []):
                if p_ not in back and p_ != bi:
                    back.add(p_)
                    st.append(p_)
        loop = sorted(fwd & back)
        N = len(elems)
        if T0 not in loop or N > 8 or len(loop) * (N + 1) > 600:
            raise Bail('loop shape / size')
        keep = set(o_['pl']['l'] for _, o_ in elems if o_['k'] in ('copy', 'move'))
        for b_ in blocks:
            b_['st'] = [s_ for s_ in b_['st'] if not (s_['s'] == 'dead' and s_['l'] in keep)]
        A = lambda pl, rv: {'s': 'assign', 'pl': pl, 'rv': rv, 'at': at}

        def opt(variant, vidx, ops):
            return {'r': 'agg', 'kind': 'adt', 'adt': 'core::option::Option', 'variant': variant, 'vidx': vidx,
                    'fields': ['0'] if ops else [], 'is_enum': True, 'ops': ops}
        ph = lambda: self.add_block(None, [], {'t': 'unreachable'})
        maps = [{b: ph() for b in loop} for _ in range(N + 1)]
        heads = [ph() for _ in range(N + 1)]
        unr = ph()
        for k in range(N + 1):
            mk = maps[k]

            def rm(x, k=k, mk=mk):
                if x == bi:
                    return heads[k + 1] if k < N else unr
                return mk.get(x, x)
            for b in loop:
                nb = copy.deepcopy(blocks[b])
                tt = nb['term']
                if isinstance(tt.get('to'), int) and tt['to'] >= 0:
                    tt['to'] = rm(tt['to'])
                if tt['t'] == 'switch':
                    tt['arms'] = [[v, rm(x)] for v, x in tt['arms']]
                    tt['otherwise'] = rm(tt['otherwise'])
                blocks[mk[b]] = nb
            into = mk[T0]
            if k == N:
                blocks[heads[k]] = {'cleanup': False, 'st': [A(dest, opt('None', 0, []))], 'term': {'t': 'goto', 'to': into}}
                continue
            ek, o = elems[k]
            if ek == 'val':
                blocks[heads[k]] = {'cleanup': False, 'st': [A(dest, opt('Some', 1, [o]))], 'term': {'t': 'goto', 'to': into}}
            else:
                if o['k'] not in ('copy', 'move'):
                    raise Bail('constant Option source')
                opt_ty = body['locals'][o['pl']['l']] if not o['pl'].get('p') else 'core::option::Option<?>'
                d_k = self.newlocal('isize')
                yes = ph()
                src = {'k': 'move', 'pl': {'l': o['pl']['l'], 'p': list(o['pl'].get('p', [])) + [{'v': 1, 'n': 'Some'}, {'f': 0, 'n': '0'}]}}
                blocks[heads[k]] = {'cleanup': False, 'st': [A({'l': d_k}, {'r': 'discr', 'pl': o['pl'], 'ty': opt_ty})],
                                    'term': {'t': 'switch', 'd': {'k': 'move', 'pl': {'l': d_k}}, 'dty': 'isize', 'arms': [[0, heads[k + 1]], [1, yes]],
                                             'otherwise': unr, 'at': at}}
                blocks[yes] = {'cleanup': False, 'st': [A(dest, opt('Some', 1, [src]))], 'term': {'t': 'goto', 'to': into}}
        for cb in neutralise:
            blocks[cb]['term'] = {'t': 'goto', 'to': blocks[cb]['term']['to']}
        blocks[bi]['term'] = {'t': 'goto', 'to': heads[0]}
        self.new = []

    def closure_of(self, t):
        ck = [k for k in t.get('closures', []) if k in self.insts]
        if len(ck) != 1:
            raise Bail('closure body not available')
        cl = op_local(t['args'][-1])
        if cl is None:
            raise Bail('closure operand is not a local')
        return ck[0], cl

    def static_source(self, it, neutralise, depth=0):
        """elements of an iterator value built from `core::iter::once(a)`, `Option` values and `chain`: list of ('val', operand) /
        ('opt', operand), or None when the source is not of that kind"""
        body = self.body
        if depth > 6:
            return None
        d = _defs_of(body, it)
        if len(d) != 1 or d[0][0] != 'call':
            return None
        cb = d[0][1]
        ct = body['blocks'][cb]['term']
        if not ct.get('leaf') or ct['to'] < 0:
            return None
        cal = ct['callee']
        tys = ct.get('argtys', [])
        if re.search(r'core::iter::(sources::once::)?once::<', cal) and len(ct['args']) == 1:
            neutralise.append(cb)
            return [('val', ct['args'][0])]
        if cal.endswith(' as core::iter::IntoIterator>::into_iter') and tys and tys[0].startswith('core::option::Option<'):
            neutralise.append(cb)
            return [('opt', ct['args'][0])]
        if re.search(r'(<\[.*; \d+\] as core::iter::IntoIterator>|impl core::iter::IntoIterator for \[.*; \d+\]>)::into_iter$', cal) and len(ct['args']) == 1:
            # `[a, b, c].into_iter()`: the array literal's elements, in order
            a0 = ct['args'][0]
            if a0['k'] == 'const' and a0.get('cbody') in self.insts:
                # a constant table (`for step in STEPS`): its elements by position, read from a copy of the constant
                cb_ = self.insts[a0['cbody']]
                n_el = None
                for blk_ in cb_['blocks']:
                    for s_ in blk_['st']:
                        if s_['s'] == 'assign' and s_['pl']['l'] == 0 and not s_['pl'].get('p') and s_['rv']['r'] == 'agg' and s_['rv'].get('kind') == 'array':
                            n_el = len(s_['rv']['ops'])
                if n_el is None:
                    return None
                tl = self.newlocal(a0.get('ty', '[?]'))
                body['blocks'][cb]['st'] = body['blocks'][cb]['st'] + [{'s': 'assign', 'pl': {'l': tl}, 'rv': {'r': 'use', 'o': a0}, 'at': ct.get('at')}]
                neutralise.append(cb)
                return [('val', {'k': 'copy', 'pl': {'l': tl, 'p': [{'ci': k_}]}}) for k_ in range(n_el)]
            al = op_local(a0)
            arv = _single_assign(body, al) if al is not None else None
            if arv is None or arv['r'] != 'agg' or arv.get('kind') != 'array':
                return None
            neutralise.append(cb)
            return [('val', o) for o in arv['ops']]
        if re.search(r'core::slice::<impl \[.*\]>::iter$', cal) and len(ct['args']) == 1:
            # `slice.iter()` where the slice is (a reference to) an array literal built in this body: its elements by position
            l = op_local(ct['args'][0])
            for _ in range(12):
                rv = _single_assign(body, l) if l is not None else None
                if rv is None:
                    return None
                if rv['r'] == 'agg' and rv.get('kind') == 'array':
                    neutralise.append(cb)
                    return [('val', {'k': 'copy', 'pl': {'l': l, 'p': [{'ci': k_}]}}) for k_ in range(len(rv['ops']))]
                if rv['r'] == 'ref' and (rv['pl'].get('p') or []) in ([], ['*']):
                    l = rv['pl']['l']
                elif rv['r'] in ('use', 'cast') and op_local(rv.get('o') or rv.get('a')) is not None:
                    l = op_local(rv.get('o') or rv.get('a'))
                else:
                    return None
            return None
        if ' as core::iter::Iterator>::flatten' in cal and len(ct['args']) == 1 and 'IntoIter<core::option::Option<' in cal:
            # `.flatten()` over a static list of Options: each element only when it is Some
            a = op_local(ct['args'][0])
            inner = self.static_source(a, neutralise, depth + 1) if a is not None else None
            if inner is None or any(k_ != 'val' or o_['k'] not in ('copy', 'move') for k_, o_ in inner):
                return None
            neutralise.append(cb)
            return [('opt', o_) for _, o_ in inner]
        if ' as core::iter::Iterator>::chain::<' in cal and len(ct['args']) == 2:
            a = op_local(ct['args'][0])
            first = self.static_source(a, neutralise, depth + 1) if a is not None else None
            if first is None:
                return None
            if len(tys) > 1 and tys[1].startswith('core::option::Option<'):
                second = [('opt', ct['args'][1])]
            else:
                b = op_local(ct['args'][1])
                second = self.static_source(b, neutralise, depth + 1) if b is not None else None
            if second is None:
                return None
            neutralise.append(cb)
            return first + second
        return None

    def rewrite_static(self, bi, kind, elems, ckey, cl_local, nargs, neutralise):
        """`once(a).chain(opt).for_each(c)` and the like: the body of c once per element, in order; an Option element only when Some"""
        body = self.body
        blocks = body['blocks']
        t = blocks[bi]['term']
        at = t.get('at')
        dest, T = t['dest'], t['to']
        A = lambda pl, rv: {'s': 'assign', 'pl': pl, 'rv': rv, 'at': at}
        use = lambda o: {'r': 'use', 'o': o}
        mv = lambda l, p=None: {'k': 'move', 'pl': ({'l': l, 'p': p} if p else {'l': l})}
        unit = {'k': 'const', 'ty': '()', 'v': '()'}
        cbool = lambda v: {'k': 'const', 'ty': 'bool', 'v': 'true' if v else 'false'}
        n = len(elems)
        # the elements were moved into the source value (array, chain, ..) and are read from their original locals here: those locals stay live
        keep = set(o_['pl']['l'] for _, o_ in elems if o_['k'] in ('copy', 'move'))
        for b_ in blocks:
            b_['st'] = [s_ for s_ in b_['st'] if not (s_['s'] == 'dead' and s_['l'] in keep)]
        for k, (ek, o) in enumerate(elems):
            nxt = 'EL%d' % (k + 1) if k + 1 < n else 'NONE'
            cB0, cL0, cbody = self.splice(ckey, cl_local, 'RET%d' % k, at)
            ret_local, ret_ty = cL0, cbody['locals'][0]
            if ek == 'val':
                self.add_block('EL%d' % k, [A({'l': cL0 + nargs}, use(o))], {'t': 'goto', 'to': cB0})
            else:
                if o['k'] not in ('copy', 'move'):
                    raise Bail('constant Option source')
                opt_ty = body['locals'][o['pl']['l']] if not o['pl'].get('p') else 'core::option::Option<?>'
                d_k = self.newlocal('isize')
                self.add_block('EL%d' % k, [A({'l': d_k}, {'r': 'discr', 'pl': o['pl'], 'ty': opt_ty})],
                               {'t': 'switch', 'd': mv(d_k), 'dty': 'isize', 'arms': [[0, nxt], [1, 'Y%d' % k]], 'otherwise': 'UNR', 'at': at})
                src = {'k': 'move', 'pl': {'l': o['pl']['l'], 'p': list(o['pl'].get('p', [])) + [{'v': 1, 'n': 'Some'}, {'f': 0, 'n': '0'}]}}
                self.add_block('Y%d' % k, [A({'l': cL0 + nargs}, use(src))], {'t': 'goto', 'to': cB0})
            if kind == 'for_each':
                self.add_block('RET%d' % k, [], {'t': 'goto', 'to': nxt})
            elif kind == 'all':
                self.add_block('RET%d' % k, [], {'t': 'switch', 'd': mv(ret_local), 'dty': 'bool', 'arms': [[0, 'BRK']], 'otherwise': nxt, 'at': at})
            elif kind == 'any':
                self.add_block('RET%d' % k, [], {'t': 'switch', 'd': mv(ret_local), 'dty': 'bool', 'arms': [[0, nxt]], 'otherwise': 'BRK', 'at': at})
            else:   # try_for_each
                if not ret_ty.startswith('core::result::Result<'):
                    raise Bail('try_for_each on a non-Result type')
                l_rd = self.newlocal('isize')
                self.add_block('RET%d' % k, [A({'l': l_rd}, {'r': 'discr', 'pl': {'l': ret_local}, 'ty': ret_ty})],
                               {'t': 'switch', 'd': mv(l_rd), 'dty': 'isize', 'arms': [[0, nxt], [1, 'BRK%d' % k]], 'otherwise': 'UNR', 'at': at})
                self.add_block('BRK%d' % k, [A(dest, use(mv(ret_local)))], {'t': 'goto', 'to': T})
        if kind == 'for_each':
            self.add_block('NONE', [A(dest, use(unit))], {'t': 'goto', 'to': T})
        elif kind in ('all', 'any'):
            self.add_block('NONE', [A(dest, use(cbool(kind == 'all')))], {'t': 'goto', 'to': T})
            self.add_block('BRK', [A(dest, use(cbool(kind != 'all')))], {'t': 'goto', 'to': T})
        else:
            self.add_block('NONE', [A(dest, {'r': 'agg', 'kind': 'adt', 'adt': 'core::result::Result', 'variant': 'Ok', 'vidx': 0, 'fields': ['0'], 'is_enum': True,
                                           'ops': [unit]})], {'t': 'goto', 'to': T})
        self.add_block('UNR', [], {'t': 'unreachable'})
        self.resolve()
        for cb in neutralise:
            blocks[cb]['term'] = {'t': 'goto', 'to': blocks[cb]['term']['to']}
        blocks[bi]['st'] = blocks[bi]['st'] + self.pre
        blocks[bi]['term'] = {'t': 'goto', 'to': self.names['EL0']}

    def rewrite_collect(self, bi):
        """`iter.collect::<Result<(), E>>()`: pull until the first Err (which is the result), Ok(()) when the iterator is exhausted"""
        body = self.body
        blocks = body['blocks']
        t = blocks[bi]['term']
        at = t.get('at')
        m = COLLECT_UNIT.match(t['callee'])
        a0 = op_local(t['args'][0]) if len(t['args']) == 1 else None
        if a0 is None or t['to'] < 0 or t['dest'].get('p'):
            raise Bail('collect shape')
        elem_ty = m.group(2)
        neutralise = []
        start, x, _ = self.gen_pull(a0, elem_ty, 'GOT', 'NONE', at, neutralise)
        A = lambda pl, rv: {'s': 'assign', 'pl': pl, 'rv': rv, 'at': at}
        mv = lambda l: {'k': 'move', 'pl': {'l': l}}
        d = self.newlocal('isize')
        self.add_block('GOT', [A({'l': d}, {'r': 'discr', 'pl': {'l': x}, 'ty': elem_ty})],
                       {'t': 'switch', 'd': mv(d), 'dty': 'isize', 'arms': [[0, start], [1, 'BRK']], 'otherwise': 'UNR', 'at': at})
        self.add_block('BRK', [A(t['dest'], {'r': 'use', 'o': mv(x)})], {'t': 'goto', 'to': t['to']})
        self.add_block('NONE', [A(t['dest'], {'r': 'agg', 'kind': 'adt', 'adt': 'core::result::Result', 'variant': 'Ok', 'vidx': 0, 'fields': ['0'], 'is_enum': True,
                                              'ops': [{'k': 'const', 'ty': '()', 'v': '()'}]})], {'t': 'goto', 'to': t['to']})
        self.add_block('UNR', [], {'t': 'unreachable'})
        self.resolve()
        for cb in neutralise:
            blocks[cb]['term'] = {'t': 'goto', 'to': blocks[cb]['term']['to']}
        blocks[bi]['term'] = {'t': 'goto', 'to': self.names[start]}

    def rewrite(self, bi):
        insts, body = self.insts, self.body
        blocks = body['blocks']
        t = blocks[bi]['term']
        m = CONSUMER.match(t['callee'])
        kind = m.group(2)
        iter_ty = m.group(1)
        if t['to'] < 0:
            raise Bail('diverging consumer')
        nargs = {'for_each': 2, 'try_for_each': 2, 'all': 2, 'any': 2, 'fold': 3, 'try_fold': 3, 'find': 2, 'find_map': 2, 'position': 2}[kind]
        if len(t['args']) != nargs:
            raise Bail('arity')
        at = t.get('at')
        ckey, cl_local = self.closure_of(t)
        # ---- the iterator pipeline feeding the consumer
        it_ty = t['argtys'][0] if t.get('argtys') else ''
        a0 = op_local(t['args'][0])
        if a0 is None:
            raise Bail('iterator operand is not a local')
        if it_ty.startswith('&mut '):
            rv = _single_assign(body, a0)
            if rv is None or rv['r'] != 'ref' or rv['pl'].get('p'):
                raise Bail('iterator reference')
            it = rv['pl']['l']
            it_val_ty = it_ty[5:]
        else:
            it = a0
            it_val_ty = it_ty
        stages = []
        neutralise = []
        while True:
            d = _defs_of(body, it)
            if len(d) != 1 or d[0][0] != 'call':
                break
            cb = d[0][1]
            ct = blocks[cb]['term']
            am = ADAPTOR.match(ct['callee'])
            if not am or not ct.get('leaf') or len(ct['args']) != 2 or ct['to'] < 0:
                break
            # the adaptor value feeds only the next stage: the consumer's `&mut it` borrow / by-value argument, or the outer adaptor's argument
            expected = (1 if it_ty.startswith('&mut ') else 0) if not stages else 1
            if _uses(body, it, skip_blocks=(bi,)) != expected:
                raise Bail('adaptor value has other uses')
            inner = op_local(ct['args'][0])
            if inner is None:
                raise Bail('adaptor operand is not a local')
            stages.insert(0, (am.group(2), self.stage_of(ct)))
            neutralise.append(cb)
            iter_ty = am.group(1)
            it = inner
            it_val_ty = ct['argtys'][0] if ct.get('argtys') else iter_ty
        # ---- a statically known source (`once(a)`, an Option, `A.chain(B)` of those): unroll instead of looping
        tmp = []
        static = self.static_source(it, tmp) if not stages else None
        if static is not None:
            neutralise.extend(tmp)
            if kind in ('fold', 'try_fold', 'find', 'find_map', 'position'):
                raise Bail('fold / find over a static source')
            self.rewrite_static(bi, kind, static, ckey, cl_local, nargs, neutralise)
            return
        # ---- loop skeleton
        # consumer first (its parameter types give the element type when there is no stage)
        cB0, cL0, cbody = self.splice(ckey, cl_local, 'RET', at)
        staged = [self.prepare_stage(i, sk, spec, at) for i, (sk, spec) in enumerate(stages)]
        if staged:
            first_param_ty = staged[0]['param_ty']
            elem0_ty = first_param_ty[1:] if staged[0]['kind'] == 'filter' and first_param_ty.startswith('&') else first_param_ty
        else:
            elem0_ty = cbody['locals'][nargs]
        acc = None
        if kind in ('fold', 'try_fold'):
            acc = self.newlocal(cbody['locals'][2])
            self.pre.append({'s': 'assign', 'pl': {'l': acc}, 'rv': {'r': 'use', 'o': t['args'][1]}, 'at': at})
        dest = t['dest']
        T = t['to']
        A = lambda pl, rv: {'s': 'assign', 'pl': pl, 'rv': rv, 'at': at}
        use = lambda o: {'r': 'use', 'o': o}
        mv = lambda l, p=None: {'k': 'move', 'pl': ({'l': l, 'p': p} if p else {'l': l})}
        start, x, _ = self.gen_pull(it, elem0_ty, 'PRE0' if staged else 'CONS', 'NONE', at, neutralise)
        self.add_block('H', [], {'t': 'goto', 'to': start})
        x = self.emit_stages(staged, x, at, 'CONS')
        cons_st = []
        if acc is not None:
            cons_st.append(A({'l': cL0 + 2}, use(mv(acc))))
        if kind == 'find':     # the predicate looks at the element, the element itself is the result
            cons_st.append(A({'l': cL0 + nargs}, {'r': 'ref', 'mut': False, 'pl': {'l': x}}))
        else:
            cons_st.append(A({'l': cL0 + nargs}, use(mv(x))))
        self.add_block('CONS', cons_st, {'t': 'goto', 'to': cB0})
        pos = None
        if kind == 'position':
            pos = self.newlocal('usize')
            self.pre.append(A({'l': pos}, use({'k': 'const', 'ty': 'usize', 'v': '0_usize'})))
        unit = {'k': 'const', 'ty': '()', 'v': '()'}

        ret_local = cL0 + 0
        ret_ty = cbody['locals'][0]
        # the Try type of try_for_each / try_fold: (adt, continue variant, its index, break index)
        if ret_ty.startswith('core::result::Result<') or ret_ty.startswith('std::result::Result<'):
            try_ = ('core::result::Result', 'Ok', 0, 1)
        elif ret_ty.startswith('core::ops::ControlFlow<') or ret_ty.startswith('core::ops::control_flow::ControlFlow<'):
            try_ = ('core::ops::ControlFlow', 'Continue', 0, 1)
        elif ret_ty.startswith('core::option::Option<'):
            try_ = ('core::option::Option', 'Some', 1, 0)
        else:
            try_ = None

        def cont(o):
            return {'r': 'agg', 'kind': 'adt', 'adt': try_[0], 'variant': try_[1], 'vidx': try_[2], 'fields': ['0'], 'is_enum': True, 'ops': [o]}
        cbool = lambda v: {'k': 'const', 'ty': 'bool', 'v': 'true' if v else 'false'}
        if kind == 'for_each':
            self.add_block('NONE', [A(dest, use(unit))], {'t': 'goto', 'to': T})
            self.add_block('RET', [], {'t': 'goto', 'to': 'H'})
        elif kind in ('all', 'any'):
            self.add_block('NONE', [A(dest, use(cbool(kind == 'all')))], {'t': 'goto', 'to': T})
            if kind == 'all':    # stop at the first false
                self.add_block('RET', [], {'t': 'switch', 'd': mv(ret_local), 'dty': 'bool', 'arms': [[0, 'BRK']], 'otherwise': 'H', 'at': at})
            else:                # stop at the first true
                self.add_block('RET', [], {'t': 'switch', 'd': mv(ret_local), 'dty': 'bool', 'arms': [[0, 'H']], 'otherwise': 'BRK', 'at': at})
            self.add_block('BRK', [A(dest, use(cbool(kind != 'all')))], {'t': 'goto', 'to': T})
        elif kind == 'try_for_each':
            if try_ is None:
                raise Bail('try_for_each on an unknown Try type')
            l_rd = self.newlocal('isize')
            self.add_block('NONE', [A(dest, cont(unit))], {'t': 'goto', 'to': T})
            self.add_block('RET', [A({'l': l_rd}, {'r': 'discr', 'pl': {'l': ret_local}, 'ty': ret_ty})],
                           {'t': 'switch', 'd': mv(l_rd), 'dty': 'isize', 'arms': [[try_[2], 'H'], [try_[3], 'BRK']], 'otherwise': 'UNR', 'at': at})
            self.add_block('BRK', [A(dest, use(mv(ret_local)))], {'t': 'goto', 'to': T})
        elif kind == 'fold':
            self.add_block('NONE', [A(dest, use(mv(acc)))], {'t': 'goto', 'to': T})
            self.add_block('RET', [A({'l': acc}, use(mv(ret_local)))], {'t': 'goto', 'to': 'H'})
        elif kind in ('find', 'position', 'find_map'):
            def opt_(variant, vidx, ops):
                return {'r': 'agg', 'kind': 'adt', 'adt': 'core::option::Option', 'variant': variant, 'vidx': vidx,
                        'fields': ['0'] if ops else [], 'is_enum': True, 'ops': ops}
            self.add_block('NONE', [A(dest, opt_('None', 0, []))], {'t': 'goto', 'to': T})
            if kind == 'find':
                self.add_block('RET', [], {'t': 'switch', 'd': mv(ret_local), 'dty': 'bool', 'arms': [[0, 'H']], 'otherwise': 'BRK', 'at': at})
                self.add_block('BRK', [A(dest, opt_('Some', 1, [mv(x)]))], {'t': 'goto', 'to': T})
            elif kind == 'position':
                tmp = self.newlocal('(usize, bool)')
                self.add_block('RET', [], {'t': 'switch', 'd': mv(ret_local), 'dty': 'bool', 'arms': [[0, 'ADV']], 'otherwise': 'BRK', 'at': at})
                self.add_block('ADV', [A({'l': tmp}, {'r': 'bin', 'op': 'AddWithOverflow', 'a': {'k': 'copy', 'pl': {'l': pos}}, 'b': {'k': 'const', 'ty': 'usize', 'v': '1_usize'}}),
                                       A({'l': pos}, use(mv(tmp, [{'f': 0, 'n': '0'}])))], {'t': 'goto', 'to': 'H'})
                self.add_block('BRK', [A(dest, opt_('Some', 1, [{'k': 'copy', 'pl': {'l': pos}}]))], {'t': 'goto', 'to': T})
            else:
                if not ret_ty.startswith('core::option::Option<'):
                    raise Bail('find_map closure type')
                l_rd = self.newlocal('isize')
                self.add_block('RET', [A({'l': l_rd}, {'r': 'discr', 'pl': {'l': ret_local}, 'ty': ret_ty})],
                               {'t': 'switch', 'd': mv(l_rd), 'dty': 'isize', 'arms': [[0, 'H'], [1, 'BRK']], 'otherwise': 'UNR', 'at': at})
                self.add_block('BRK', [A(dest, use(mv(ret_local)))], {'t': 'goto', 'to': T})
        else:   # try_fold
            if try_ is None:
                raise Bail('try_fold on an unknown Try type')
            l_rd = self.newlocal('isize')
            self.add_block('NONE', [A(dest, cont(mv(acc)))], {'t': 'goto', 'to': T})
            self.add_block('RET', [A({'l': l_rd}, {'r': 'discr', 'pl': {'l': ret_local}, 'ty': ret_ty})],
                           {'t': 'switch', 'd': mv(l_rd), 'dty': 'isize', 'arms': [[try_[2], 'CONT'], [try_[3], 'BRK']], 'otherwise': 'UNR', 'at': at})
            self.add_block('CONT', [A({'l': acc}, use(mv(ret_local, [{'v': try_[2], 'n': try_[1]}, {'f': 0, 'n': '0'}])))], {'t': 'goto', 'to': 'H'})
            self.add_block('BRK', [A(dest, use(mv(ret_local)))], {'t': 'goto', 'to': T})
        self.add_block('UNR', [], {'t': 'unreachable'})
        self.resolve()
        # the adaptor constructors no longer run; the consumer call block runs the pre-loop statements and enters the loop
        for cb in neutralise:
            blocks[cb]['term'] = {'t': 'goto', 'to': blocks[cb]['term']['to']}
        blocks[bi]['st'] = blocks[bi]['st'] + self.pre
        blocks[bi]['term'] = {'t': 'goto', 'to': self.names['H']}


def _direct_call_target(insts, body, t):
    """(closure instance key, closure local) if the call invokes a closure value built in this body"""
    if t['t'] != 'call' or not t.get('closure_call') or t.get('leaf') or t['callee'] not in insts or t['to'] < 0:
        return None
    if not insts[t['callee']].get('is_closure') or not t['args']:
        return None
    a0 = op_local(t['args'][0])
    if a0 is None:
        return None
    ty = t['argtys'][0] if t.get('argtys') else ''
    if ty.startswith('&'):
        rv = _single_assign(body, a0)
        if rv is None or rv['r'] != 'ref' or rv['pl'].get('p'):
            return None
        cl = rv['pl']['l']
    else:
        cl = a0
    cl = _closure_root(body, cl)
    crv = _single_assign(body, cl)
    if crv is None or crv['r'] != 'agg' or crv.get('kind') != 'closure':
        return None
    return t['callee'], cl


def rewrite_direct_call(insts, body, bi, done):
    """`f(args)` where f is a closure built in this body: splice f's body in place of the call (its captured variables are the
    caller's own places, so state it mutates is seen by the caller and by its later calls)"""
    t = body['blocks'][bi]['term']
    ckey, cl = _direct_call_target(insts, body, t)
    at = t.get('at')
    rw = Rewriter(insts, body, done)
    B0, L0, cbody = rw.splice(ckey, cl, 'DRET', at)
    argc = cbody.get('argc', 0)
    st = []
    if argc > 1:
        if len(t['args']) < 2:
            raise Bail('closure arguments')
        tup = t['args'][1]
        for i in range(argc - 1):
            if tup['k'] in ('copy', 'move'):
                src = {'k': 'move', 'pl': {'l': tup['pl']['l'], 'p': list(tup['pl'].get('p', [])) + [{'f': i, 'n': str(i)}]}}
            else:
                raise Bail('constant argument tuple')
            st.append({'s': 'assign', 'pl': {'l': L0 + 2 + i}, 'rv': {'r': 'use', 'o': src}, 'at': at})
    rw.add_block('DRET', [{'s': 'assign', 'pl': t['dest'], 'rv': {'r': 'use', 'o': {'k': 'move', 'pl': {'l': L0}}}, 'at': at}], {'t': 'goto', 'to': t['to']})
    rw.resolve()
    body['blocks'][bi]['st'] = body['blocks'][bi]['st'] + st
    body['blocks'][bi]['term'] = {'t': 'goto', 'to': B0}


def _higher_order_target(insts, body, t):
    """a walked workspace function called with a closure built in this body, or with (a reference to) an array literal built in this
    body: its loops / closure calls can only be followed with the caller's values in sight, so its body is spliced into the caller"""
    if t['t'] != 'call' or t.get('leaf') or t.get('closure_call') or t['callee'] not in insts or t['to'] < 0 or t['dest'].get('p'):
        return False
    cb = insts[t['callee']]
    if cb.get('is_closure') or cb is body or (t.get('self_adt') or '').endswith('Client'):
        return False
    if cb.get('argc', 0) != len(t['args']) or len(cb['blocks']) > 120:
        return False
    for a in t['args']:
        l = op_local(a)
        if l is None:
            continue
        for _ in range(8):      # through `&x`, `&*r`, unsizing casts and moves
            rv = _single_assign(body, l)
            if rv is None:
                break
            if rv['r'] == 'agg' and rv.get('kind') in ('closure', 'array'):
                return True
            if rv['r'] == 'ref' and (rv['pl'].get('p') or []) in ([], ['*']):
                l = rv['pl']['l']
            elif rv['r'] in ('use', 'cast') and op_local(rv.get('o') or rv.get('a')) is not None:
                l = op_local(rv.get('o') or rv.get('a'))
            else:
                break
    return False


def rewrite_plain_call(insts, body, bi, done):
    t = body['blocks'][bi]['term']
    at = t.get('at')
    rw = Rewriter(insts, body, done)
    B0, L0, cbody = rw.splice(t['callee'], None, 'FRET', at)
    st = [{'s': 'assign', 'pl': {'l': L0 + 1 + i}, 'rv': {'r': 'use', 'o': a}, 'at': at} for i, a in enumerate(t['args'])]
    rw.add_block('FRET', [{'s': 'assign', 'pl': t['dest'], 'rv': {'r': 'use', 'o': {'k': 'move', 'pl': {'l': L0}}}, 'at': at}], {'t': 'goto', 'to': t['to']})
    rw.resolve()
    body['blocks'][bi]['st'] = body['blocks'][bi]['st'] + st
    body['blocks'][bi]['term'] = {'t': 'goto', 'to': B0}
    body.setdefault('inlined_fns', []).append(t['callee'])


def inline_body(insts, body, done):
    key = body['key']
    if key in done:
        return
    done.add(key)
    guard = 0
    changed = True
    while changed and guard < 50:
        changed = False
        guard += 1
        for bi, b in enumerate(body['blocks']):
            t = b['term']
            if b['cleanup'] or t['t'] != 'call' or t.get('_noinline'):
                continue
            direct = _direct_call_target(insts, body, t) is not None
            nxt = bool(t.get('leaf') and NEXT_ADAPTOR.match(t['callee']))
            plain = (not direct) and _higher_order_target(insts, body, t)
            coll = bool(t.get('leaf') and COLLECT_UNIT.match(t['callee']))
            if not direct and not nxt and not plain and not coll and not (t.get('leaf') and CONSUMER.match(t['callee'])):
                continue
            snap = (len(body['locals']), len(body['blocks']), len(body['promoted']), copy.deepcopy(body['blocks']), dict(body['names']),
                    list(body.get('inlined_iter_closures', [])), copy.deepcopy(body.get('_closure_caps', {})))
            try:
                if direct:
                    rewrite_direct_call(insts, body, bi, done)
                elif plain:
                    rewrite_plain_call(insts, body, bi, done)
                elif coll:
                    Rewriter(insts, body, done).rewrite_collect(bi)
                elif nxt:
                    Rewriter(insts, body, done).rewrite_next(bi)
                else:
                    Rewriter(insts, body, done).rewrite(bi)
                changed = True
                break
            except (Bail, KeyError, IndexError) as e:
                # undo partial edits, leave the call to the generic leaf-closure model
                del body['locals'][snap[0]:]
                body['blocks'][:] = snap[3]
                del body['promoted'][snap[2]:]
                body['names'] = snap[4]
                body['inlined_iter_closures'] = snap[5]
                body['_closure_caps'] = snap[6]
                body['blocks'][bi]['term']['_noinline'] = '%s: %s' % (type(e).__name__, e)


def ctor_calls_to_aggregates(body):
    """`Err(e)` / `Some(x)` / `Wrapper(v)` written as a call of the constructor FUNCTION (`opt.map_or(Ok(()), Err)`, `.map(Some)`) is the
    same value as the aggregate expression: rewrite the call into the assignment, so that terms and the abstract store see the variant"""
    for b in body['blocks']:
        t = b['term']
        if t['t'] == 'call' and t.get('ctor') and t['to'] >= 0 and len(t['args']) == len(t['ctor']['fields']):
            c = t['ctor']
            b['st'] = b['st'] + [{'s': 'assign', 'pl': t['dest'], 'at': t.get('at'),
                                  'rv': {'r': 'agg', 'kind': 'adt', 'adt': c['adt'], 'variant': c['variant'], 'vidx': c['vidx'], 'fields': c['fields'],
                                         'is_enum': c['is_enum'], 'ops': t['args']}}]
            b['term'] = {'t': 'goto', 'to': t['to']}
        if t['t'] == 'drop' and t.get('ws_drop') and not b['cleanup']:
            # dropping a value whose type has a hand-written workspace `Drop` impl runs that impl: not followed -> a leaf call the model
            # reports as an opaque effect
            tmp = len(body['locals'])
            body['locals'].append('()')
            b['term'] = {'t': 'call', 'callee': 'WS_DROP ' + str(body['locals'][t['pl']['l']])[:80], 'cdef': 'core::ops::Drop::drop', 'leaf': True, 'crate': 'core',
                         'closure_call': False, 'self_adt': '', 'closures': [], 'args': [{'k': 'move', 'pl': t['pl']}], 'argtys': [body['locals'][t['pl']['l']]],
                         'dest': {'l': tmp}, 'to': t['to'], 'at': t.get('at'), 'ws_iter': True}
    for pb in body.get('promoted', []):
        if 'blocks' in pb:
            ctor_calls_to_aggregates(pb)


def inline_all(insts):
    done = set()
    for body in insts.values():
        ctor_calls_to_aggregates(body)
    for body in list(insts.values()):
        inline_body(insts, body, done)
