"""Rewrites `iter.for_each(c) / try_for_each(c) / all(c) / any(c) / fold(init, c) / try_fold(init, c)` on the loaded MIR facts into the
explicit `loop { match iter.next() { Some(x) => <body of c>, None => break } }` that a `for` loop compiles to, with the closure body
spliced into the caller and its captured variables replaced by the caller's own places.

Why: the eager iterator consumers are library code whose loop lives in core; treating them as opaque leaves loses (a) the early exit of
try_for_each / all / any, (b) state that the closure keeps in captured `&mut` variables across iterations (running sums, "previous
element").  After the rewrite the ordinary machinery (reaching definitions, def-use terms, abstract store) sees the same program shape
as for the `for` loop, so a maintainer's loop <-> iterator-chain refactoring does not change any verdict.

The rewrite is purely structural (no evaluation); when a precondition is not met the call is left alone (the generic, coarser
"closure may be called by this leaf" model applies).  Result<_, _> is the only Try type handled for try_for_each / try_fold.
"""
import copy
import re

CONSUMER = re.compile(r'^\w+::<(.+) as core::iter::Iterator>::(for_each|try_for_each|all|any|fold|try_fold)::<')


def op_local(o):
    if o['k'] in ('copy', 'move') and not o['pl'].get('p'):
        return o['pl']['l']
    return None


def _single_assign(body, local):
    """the unique plain assignment `local = rv` of the body (None if not exactly one definition site)"""
    found = []
    for b in body['blocks']:
        if b['cleanup']:
            continue
        for s in b['st']:
            if s['s'] == 'assign' and s['pl']['l'] == local:
                if s['pl'].get('p') and s['pl']['p'][0] == '*':
                    continue          # writes the pointee, not the local itself
                found.append(s if not s['pl'].get('p') else None)
        t = b['term']
        if t['t'] == 'call' and t['dest']['l'] == local:
            found.append(None)
    if len(found) == 1 and found[0] is not None:
        return found[0]['rv']
    return None


class Bail(Exception):
    pass


def _next_callee(insts, iter_ty):
    want = '<%s as core::iter::Iterator>::next' % iter_ty
    for i in insts.values():
        for b in i['blocks']:
            t = b['term']
            if t['t'] == 'call' and t['callee'].endswith(want):
                return dict(callee=t['callee'], cdef=t.get('cdef', ''), crate=t.get('crate', ''), self_adt=t.get('self_adt', ''))
    cr = 'soroban_sdk' if iter_ty.startswith('soroban_sdk::') else 'core'
    return dict(callee='%s::%s' % (cr, want), cdef=want, crate=cr, self_adt='')


def _rewrite_call(insts, body, bi, done):
    blocks = body['blocks']
    t = blocks[bi]['term']
    m = CONSUMER.match(t['callee'])
    kind = m.group(2)
    iter_ty = m.group(1)
    ck = [k for k in t.get('closures', []) if k in insts]
    if len(ck) != 1 or t['to'] < 0:
        raise Bail('closure body not available')
    cbody = insts[ck[0]]
    inline_body(insts, cbody, done)
    nargs = {'for_each': 2, 'try_for_each': 2, 'all': 2, 'any': 2, 'fold': 3, 'try_fold': 3}[kind]
    if len(t['args']) != nargs:
        raise Bail('arity')
    cl_local = op_local(t['args'][-1])
    if cl_local is None:
        raise Bail('closure operand is not a local')
    crv = _single_assign(body, cl_local)
    if crv is None or crv['r'] != 'agg' or crv.get('kind') != 'closure':
        raise Bail('closure value is not built in this body')
    caps = crv['ops']
    at = t.get('at')
    # ---- fresh locals / blocks
    L0 = len(body['locals'])
    nl = len(cbody['locals'])
    body['locals'].extend(cbody['locals'])

    def newlocal(ty):
        body['locals'].append(ty)
        return len(body['locals']) - 1
    B0 = len(blocks)
    nb = len(cbody['blocks'])
    P0 = len(body['promoted'])
    body['promoted'].extend(copy.deepcopy(cbody['promoted']))
    # ---- captured variables
    env_is_ref = cbody['locals'][1].startswith('&')
    pre = []        # statements executed once before the loop
    cap_place = {}  # capture index -> ('ref', place, mut) | ('val', local)
    for i, o in enumerate(caps):
        l = op_local(o)
        rv = _single_assign(body, l) if l is not None else None
        if rv is not None and rv['r'] == 'ref':
            cap_place[i] = ('ref', rv['pl'], rv.get('mut', False))
        else:
            # captured by value: the closure owns a copy that lives across the iterations
            ty = cbody_capture_ty(cbody, i, body, o)
            nlc = newlocal(ty)
            pre.append({'s': 'assign', 'pl': {'l': nlc}, 'rv': {'r': 'use', 'o': o}, 'at': at})
            cap_place[i] = ('val', nlc)

    def is_env_field(pl):
        """(capture index, remaining projection) if the place goes through the closure environment"""
        if pl['l'] != 1:
            return None
        p = pl.get('p', [])
        if env_is_ref:
            if not p or p[0] != '*':
                return None
            p = p[1:]
        if not p or not isinstance(p[0], dict) or 'f' not in p[0]:
            return None
        return p[0]['f'], p[1:]

    # temporaries of the closure body that are plain copies of a by-reference capture: `_t = (*_1).i`
    alias = {}
    for b in cbody['blocks']:
        for s in b['st']:
            if s['s'] == 'assign' and not s['pl'].get('p') and s['rv']['r'] == 'use' and s['rv']['o']['k'] in ('copy', 'move'):
                ef = is_env_field(s['rv']['o']['pl'])
                if ef and not ef[1] and cap_place.get(ef[0], ('x',))[0] == 'ref':
                    if _single_assign(cbody, s['pl']['l']) is not None:
                        alias[s['pl']['l']] = ef[0]

    def map_place(pl):
        p = list(pl.get('p', []))
        ef = is_env_field(pl)
        if ef is not None:
            i, rest = ef
            cp = cap_place.get(i)
            if cp is None:
                raise Bail('capture index')
            if cp[0] == 'val':
                return {'l': cp[1], 'p': rest} if rest else {'l': cp[1]}
            if rest and rest[0] == '*':
                base = cp[1]
                q = list(base.get('p', [])) + rest[1:]
                return {'l': base['l'], 'p': q} if q else {'l': base['l']}
            raise Bail('by-reference capture used as a value')
        if pl['l'] == 1:
            raise Bail('closure environment used as a whole')
        if pl['l'] in alias and p and p[0] == '*':
            base = cap_place[alias[pl['l']]][1]
            q = list(base.get('p', [])) + p[1:]
            return {'l': base['l'], 'p': q} if q else {'l': base['l']}
        out = {'l': L0 + pl['l']}
        if p:
            out['p'] = p
        return out

    def map_op(o):
        if o['k'] in ('copy', 'move'):
            return {'k': o['k'], 'pl': map_place(o['pl'])}
        o = dict(o)
        if 'promoted' in o:
            o['promoted'] = P0 + o['promoted']
        return o

    def map_rv(rv, dest_local):
        rv = dict(rv)
        k = rv['r']
        if k == 'use':
            o = rv['o']
            if o['k'] in ('copy', 'move'):
                ef = is_env_field(o['pl'])
                if ef and not ef[1] and cap_place.get(ef[0], ('x',))[0] == 'ref':
                    # copy of a captured reference: a fresh reference to the caller's variable
                    cp = cap_place[ef[0]]
                    return {'r': 'ref', 'mut': cp[2], 'pl': cp[1]}
            rv['o'] = map_op(o)
        elif k in ('ref', 'rawptr', 'discr'):
            rv['pl'] = map_place(rv['pl'])
        elif k == 'bin':
            rv['a'] = map_op(rv['a'])
            rv['b'] = map_op(rv['b'])
        elif k in ('un', 'cast', 'repeat'):
            rv['a'] = map_op(rv['a'])
        elif k == 'agg':
            rv['ops'] = [map_op(o) for o in rv['ops']]
        elif 'pl' in rv or 'o' in rv or 'a' in rv:
            raise Bail('rvalue %s' % k)
        return rv

    # ---- loop skeleton
    elem_ty = cbody['locals'][nargs]           # type of the closure's element parameter
    opt_ty = 'core::option::Option<%s>' % elem_ty
    iter_arg = t['args'][0]
    it_ty = t['argtys'][0] if t.get('argtys') else ''
    if it_ty.startswith('&mut '):
        iter_ref_op = None      # arg 0 already is `&mut iterator`: re-borrow it each round
        base_ref = op_local(iter_arg)
        if base_ref is None:
            raise Bail('iterator operand')
    else:
        # iterator passed by value (for_each / fold): keep it in a fresh local and borrow that
        itl = newlocal(it_ty)
        pre.append({'s': 'assign', 'pl': {'l': itl}, 'rv': {'r': 'use', 'o': iter_arg}, 'at': at})
        base_ref = None
    l_ref = newlocal('&mut ' + (it_ty[5:] if it_ty.startswith('&mut ') else it_ty))
    l_opt = newlocal(opt_ty)
    l_d = newlocal('isize')
    acc = None
    if kind in ('fold', 'try_fold'):
        acc = newlocal(cbody['locals'][2])
        pre.append({'s': 'assign', 'pl': {'l': acc}, 'rv': {'r': 'use', 'o': t['args'][1]}, 'at': at})
    nx = _next_callee(insts, iter_ty)
    H = B0 + nb            # header: call next
    S = H + 1              # switch on the Option
    SOME = H + 2           # bind the element, enter the closure body
    NONE = H + 3           # exhausted
    RET = H + 4            # closure returned
    BRK = H + 5            # early exit
    UNR = H + 6
    dest = t['dest']
    T = t['to']
    ret_local = L0 + 0

    def blk(st, term):
        return {'cleanup': False, 'st': st, 'term': term}
    # header
    if base_ref is not None:
        hst = [{'s': 'assign', 'pl': {'l': l_ref}, 'rv': {'r': 'ref', 'mut': True, 'pl': {'l': base_ref, 'p': ['*']}}, 'at': at}]
    else:
        hst = [{'s': 'assign', 'pl': {'l': l_ref}, 'rv': {'r': 'ref', 'mut': True, 'pl': {'l': itl}}, 'at': at}]
    header = blk(hst, {'t': 'call', 'callee': nx['callee'], 'cdef': nx['cdef'], 'leaf': True, 'crate': nx['crate'], 'closure_call': False,
                       'self_adt': nx['self_adt'], 'closures': [], 'args': [{'k': 'move', 'pl': {'l': l_ref}}],
                       'argtys': [body['locals'][l_ref]], 'dest': {'l': l_opt}, 'to': S, 'at': at})
    sw = blk([{'s': 'assign', 'pl': {'l': l_d}, 'rv': {'r': 'discr', 'pl': {'l': l_opt}, 'ty': opt_ty}, 'at': at}],
             {'t': 'switch', 'd': {'k': 'move', 'pl': {'l': l_d}}, 'dty': 'isize', 'arms': [[0, NONE], [1, SOME]], 'otherwise': UNR, 'at': at})
    some_st = []
    if acc is not None:
        some_st.append({'s': 'assign', 'pl': {'l': L0 + 2}, 'rv': {'r': 'use', 'o': {'k': 'move', 'pl': {'l': acc}}}, 'at': at})
    some_st.append({'s': 'assign', 'pl': {'l': L0 + nargs}, 'rv': {'r': 'use', 'o': {'k': 'move', 'pl': {'l': l_opt, 'p': [{'v': 1, 'n': 'Some'}, {'f': 0, 'n': '0'}]}}},
                    'at': at})
    some = blk(some_st, {'t': 'goto', 'to': B0 + 0})
    unit = {'k': 'const', 'ty': '()', 'v': '()'}

    def res(variant, vidx, o):
        return {'r': 'agg', 'kind': 'adt', 'adt': 'core::result::Result', 'variant': variant, 'vidx': vidx, 'fields': ['0'], 'is_enum': True, 'ops': [o]}
    ret_ty = cbody['locals'][0]
    is_result = ret_ty.startswith('core::result::Result<') or ret_ty.startswith('std::result::Result<')
    mv_ret = {'k': 'move', 'pl': {'l': ret_local}}
    l_rd = newlocal('isize')
    if kind == 'for_each':
        none = blk([{'s': 'assign', 'pl': dest, 'rv': {'r': 'use', 'o': unit}, 'at': at}], {'t': 'goto', 'to': T})
        ret = blk([], {'t': 'goto', 'to': H})
        brk = blk([], {'t': 'unreachable'})
    elif kind in ('all', 'any'):
        stop_on = 0 if kind == 'all' else 1        # all: stop at the first false; any: at the first true
        none = blk([{'s': 'assign', 'pl': dest, 'rv': {'r': 'use', 'o': {'k': 'const', 'ty': 'bool', 'v': 'true' if kind == 'all' else 'false'}}, 'at': at}],
                   {'t': 'goto', 'to': T})
        if stop_on == 0:
            ret = blk([], {'t': 'switch', 'd': mv_ret, 'dty': 'bool', 'arms': [[0, BRK]], 'otherwise': H, 'at': at})
        else:
            ret = blk([], {'t': 'switch', 'd': mv_ret, 'dty': 'bool', 'arms': [[0, H]], 'otherwise': BRK, 'at': at})
        brk = blk([{'s': 'assign', 'pl': dest, 'rv': {'r': 'use', 'o': {'k': 'const', 'ty': 'bool', 'v': 'false' if kind == 'all' else 'true'}}, 'at': at}],
                  {'t': 'goto', 'to': T})
    elif kind == 'try_for_each':
        if not is_result:
            raise Bail('try_for_each on a non-Result type')
        none = blk([{'s': 'assign', 'pl': dest, 'rv': res('Ok', 0, unit), 'at': at}], {'t': 'goto', 'to': T})
        ret = blk([{'s': 'assign', 'pl': {'l': l_rd}, 'rv': {'r': 'discr', 'pl': {'l': ret_local}, 'ty': ret_ty}, 'at': at}],
                  {'t': 'switch', 'd': {'k': 'move', 'pl': {'l': l_rd}}, 'dty': 'isize', 'arms': [[0, H], [1, BRK]], 'otherwise': UNR, 'at': at})
        brk = blk([{'s': 'assign', 'pl': dest, 'rv': {'r': 'use', 'o': mv_ret}, 'at': at}], {'t': 'goto', 'to': T})
    elif kind == 'fold':
        none = blk([{'s': 'assign', 'pl': dest, 'rv': {'r': 'use', 'o': {'k': 'move', 'pl': {'l': acc}}}, 'at': at}], {'t': 'goto', 'to': T})
        ret = blk([{'s': 'assign', 'pl': {'l': acc}, 'rv': {'r': 'use', 'o': mv_ret}, 'at': at}], {'t': 'goto', 'to': H})
        brk = blk([], {'t': 'unreachable'})
    else:   # try_fold
        if not is_result:
            raise Bail('try_fold on a non-Result type')
        none = blk([{'s': 'assign', 'pl': dest, 'rv': res('Ok', 0, {'k': 'move', 'pl': {'l': acc}}), 'at': at}], {'t': 'goto', 'to': T})
        ret = blk([{'s': 'assign', 'pl': {'l': l_rd}, 'rv': {'r': 'discr', 'pl': {'l': ret_local}, 'ty': ret_ty}, 'at': at}],
                  {'t': 'switch', 'd': {'k': 'move', 'pl': {'l': l_rd}}, 'dty': 'isize', 'arms': [[0, BRK + 2], [1, BRK]], 'otherwise': UNR, 'at': at})
        brk = blk([{'s': 'assign', 'pl': dest, 'rv': {'r': 'use', 'o': mv_ret}, 'at': at}], {'t': 'goto', 'to': T})
    unr = blk([], {'t': 'unreachable'})
    extra = []
    if kind == 'try_fold':
        extra.append(blk([{'s': 'assign', 'pl': {'l': acc}, 'rv': {'r': 'use', 'o': {'k': 'move', 'pl': {'l': ret_local, 'p': [{'v': 0, 'n': 'Ok'}, {'f': 0, 'n': '0'}]}}}, 'at': at}],
                         {'t': 'goto', 'to': H}))
    # ---- the closure body, relocated
    newblocks = []
    for ob in cbody['blocks']:
        st = []
        for s in ob['st']:
            if s['s'] == 'assign':
                pl = map_place(s['pl'])
                st.append({'s': 'assign', 'pl': pl, 'rv': map_rv(s['rv'], pl['l']), 'at': s.get('at')})
            elif s['s'] == 'dead':
                if s['l'] == 1:
                    continue
                st.append({'s': 'dead', 'l': L0 + s['l']})
            else:
                s2 = dict(s)
                if 'pl' in s2:
                    s2['pl'] = map_place(s2['pl'])
                st.append(s2)
        ot = ob['term']
        tt = dict(ot)
        k = ot['t']
        if k == 'return':
            tt = {'t': 'goto', 'to': RET}
        elif k == 'goto':
            tt['to'] = B0 + ot['to']
        elif k == 'drop':
            if ot['pl']['l'] == 1:
                tt = {'t': 'goto', 'to': B0 + ot['to']}
            else:
                tt['pl'] = map_place(ot['pl'])
                tt['to'] = B0 + ot['to']
        elif k == 'assert':
            tt['c'] = map_op(ot['c'])
            tt['to'] = B0 + ot['to']
        elif k == 'switch':
            tt['d'] = map_op(ot['d'])
            tt['arms'] = [[v, B0 + b] for v, b in ot['arms']]
            tt['otherwise'] = B0 + ot['otherwise']
        elif k == 'call':
            tt['args'] = [map_op(a) for a in ot['args']]
            tt['dest'] = map_place(ot['dest'])
            tt['to'] = B0 + ot['to'] if ot['to'] >= 0 else -1
        elif k in ('unreachable', 'resume', 'abort'):
            pass
        else:
            raise Bail('terminator %s' % k)
        newblocks.append({'cleanup': ob['cleanup'], 'st': st, 'term': tt})
    blocks.extend(newblocks)
    blocks.extend([header, sw, some, none, ret, brk, unr] + extra)
    # the original call block now runs the pre-loop statements and enters the loop
    blocks[bi]['st'] = blocks[bi]['st'] + pre
    blocks[bi]['term'] = {'t': 'goto', 'to': H}
    # debug names of the closure's own locals (never override the caller's)
    for n, pl in cbody.get('names', {}).items():
        if not pl.get('p') and pl['l'] != 1 and n not in body['names']:
            body['names'][n] = {'l': L0 + pl['l']}
    body.setdefault('inlined_iter_closures', []).append(ck[0])


def cbody_capture_ty(cbody, i, body, o):
    l = op_local(o)
    if l is not None:
        return body['locals'][l]
    return o.get('ty', '?')


def inline_body(insts, body, done):
    key = body['key']
    if key in done:
        return
    done.add(key)
    guard = 0
    changed = True
    while changed and guard < 50:
        changed = False
        guard += 1
        for bi, b in enumerate(body['blocks']):
            t = b['term']
            if b['cleanup'] or t['t'] != 'call' or not t.get('leaf') or not CONSUMER.match(t['callee']):
                continue
            if t.get('_noinline'):
                continue
            snap = (len(body['locals']), len(body['blocks']), len(body['promoted']), copy.deepcopy(body['blocks'][bi]), dict(body['names']))
            try:
                _rewrite_call(insts, body, bi, done)
                changed = True
                break
            except Bail as e:
                # undo partial edits, leave the call to the generic leaf-closure model
                del body['locals'][snap[0]:]
                del body['blocks'][snap[1]:]
                del body['promoted'][snap[2]:]
                body['blocks'][bi] = snap[3]
                body['names'] = snap[4]
                body['blocks'][bi]['term']['_noinline'] = str(e)


def inline_all(insts):
    done = set()
    for body in list(insts.values()):
        inline_body(insts, body, done)
