"""Thorough tier: cross-contract interface agreement (composition by contract).

Every cross-contract client call found in any entry point is linked to the callee contract's real entry point
(client type -> contract crate in this build): the entry must exist, take the same number of arguments and the
argument types of the call must equal the callee's parameter types.  This is what lets per-contract rules compose:
e.g. ITS/example `validate_message` -> gateway `validate_message` (C02.R3 shows the consume marks the message
executed, caller := the calling contract), ITS `pay_gas` -> gas service `pay_gas` (C14), ITS `mint/burn/transfer`
-> interchain token (C12), Upgrader `upgrade/version` -> each upgradable contract (C15).
"""
import re
from rk import *

CLIENT_TO_CRATES = {
    'AxelarGatewayMessagingClient': ['axelar_gateway'],
    'AxelarGatewayClient': ['axelar_gateway'],
    'AxelarGasServiceClient': ['axelar_gas_service'],
    'InterchainTokenClient': ['interchain_token'],
    'TokenClient': ['interchain_token'],
    'StellarAssetClient': ['interchain_token'],
    'UpgradableClient': ['axelar_gateway', 'axelar_gas_service', 'axelar_operators', 'interchain_token', 'interchain_token_service'],
    'OwnableClient': ['axelar_gateway', 'axelar_gas_service', 'axelar_operators', 'interchain_token', 'interchain_token_service'],
}


def strip_ref(t):
    t = t.strip()
    while t.startswith('&'):
        t = t[1:].strip()
        if t.startswith('mut '):
            t = t[4:]
    return t.replace("<'_>", '')


def run(P, rep, crates=None):
    n = 0
    for cn, en in P.all_entries():
        if crates and cn not in crates:
            continue
        g = P.graph(cn, en)
        for e in effects(g):
            if e.kind != 'xcall' or e.client not in CLIENT_TO_CRATES:
                continue
            t = e.ctx.body['blocks'][e.bb]['term']
            argtys = [strip_ref(x) for x in t.get('argtys', [])[1:]]
            for callee in CLIENT_TO_CRATES[e.client]:
                c = P.crates.get(callee)
                if c is None:
                    continue
                if e.method not in c.entries:
                    rep.bad('XC.link', '%s::%s:%s.%s->%s:missing' % (cn, en, e.client, e.method, callee),
                            'client method has no entry point in the callee contract', esite(g, e), '%s::%s' % (callee, e.method))
                    continue
                cg = P.graph(callee, e.method)
                ptys = [strip_ref(cg.param_type(i) or '') for i in range(1, len(cg.abi_params()) + 1)]
                n += 1
                rep.check(ptys == argtys, 'XC.link', '%s::%s:%s.%s->%s' % (cn, en, e.client, e.method, callee),
                          'cross-contract call %s.%s agrees with entry %s::%s in arity and argument types' % (e.client, e.method, callee, e.method),
                          esite(g, e), 'call %s ; entry %s' % (argtys, ptys))
    rep.count('cross_contract_links', n)
    return n
