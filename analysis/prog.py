"""Program model over the dumped MIR facts.

* Program / Crate: loading, entry points, ADT tables.
* EntryGraph: per entry point the context tree (full call-string inlining of walked callees),
  flow-sensitive def-use terms, and the tag/boolean-sensitive state graph used for
  must-guard / must-follow queries (property simulation over a finite abstract store).

Nothing here executes contract code: all values are abstract tags or symbolic terms.
"""
import json
import os
import re
from collections import deque

# --------------------------------------------------------------------------------------------
# loading
# --------------------------------------------------------------------------------------------


class Crate:
    def __init__(self, path):
        d = json.load(open(path))
        self.name = d['crate']
        self.inst = {i['key']: i for i in d['instances']}
        self.roots = d['roots']
        self.adts = {a['name']: a for a in d['adts']}
        self.adt_by_def = {}
        for a in d['adts']:
            self.adt_by_def.setdefault(a['def'], a)
        self.entries = {}
        for r in self.roots:
            m = re.search(r'::__(\w+)::invoke_raw$', r)
            if not m:
                continue
            name = m.group(1)
            shim = self.inst[r]
            user = [b['term'] for b in shim['blocks']
                    if b['term']['t'] == 'call' and not b['term']['leaf'] and not b['cleanup']]
            if len(user) != 1:
                raise ValueError('entry %s: expected exactly one walked call in shim, got %d' % (r, len(user)))
            self.entries[name] = user[0]['callee']
        # eager iterator consumers taking a workspace closure (for_each, try_for_each, all, any, fold, try_fold) become the explicit
        # next()-loop a `for` compiles to, with the closure body spliced in (see iterinline.py)
        import iterinline
        iterinline.inline_all(self.inst)
        self._prep()

    def _prep(self):
        for inst in self.inst.values():
            inst['_crate_inst'] = self.inst
            inst['mut_params'] = set()
            prep_body(inst)        # first pass: reference resolution (definitions are rebuilt below)
        # which by-reference parameters does a function write through (directly, via a leaf, or via a callee)?
        changed = True
        while changed:
            changed = False
            for inst in self.inst.values():
                mp = inst['mut_params']
                argc = inst.get('argc', 0)
                for b in inst['blocks']:
                    if b['cleanup']:
                        continue
                    for st in b['st']:
                        if st['s'] == 'assign' and st['pl'].get('p') and st['pl']['p'][0] == '*':
                            r = inst['resolve_ref'](st['pl']['l'])
                            if r is not None and isinstance(r[0], tuple) and r[0][1] not in mp:
                                mp.add(r[0][1])
                                changed = True
                    t = b['term']
                    if t['t'] != 'call' or t.get('closure_call'):
                        continue
                    cal = self.inst.get(t['callee']) if not t['leaf'] else None
                    for ai, a in enumerate(t['args']):
                        al = op_local(a)
                        ty = t['argtys'][ai] if ai < len(t.get('argtys', [])) else ''
                        if al is None or not ty.startswith('&mut ') or REF_PRESERVING.search(t['callee']):
                            continue
                        if cal is not None and (ai + 1) not in cal.get('mut_params', set()):
                            continue
                        r = inst['resolve_ref'](al)
                        if r is not None and isinstance(r[0], tuple) and r[0][1] not in mp:
                            mp.add(r[0][1])
                            changed = True
        for inst in self.inst.values():
            prep_body(inst)
            for p in inst['promoted']:
                p['_crate_inst'] = self.inst
                prep_body(p)

    def discr_of(self, adt_def, vidx):
        a = self.adt_by_def.get(adt_def)
        if a is None:
            return vidx
        for v in a['variants']:
            if v['idx'] == vidx:
                try:
                    return int(v['discr'])
                except ValueError:
                    return vidx
        return vidx


class Program:
    def __init__(self, facts_dir):
        self.dir = facts_dir
        self.crates = {}
        for fn in sorted(os.listdir(facts_dir)):
            if fn.endswith('.json'):
                c = Crate(os.path.join(facts_dir, fn))
                self.crates[c.name] = c
        self._graphs = {}

    def graph(self, crate, entry):
        k = (crate, entry)
        if k not in self._graphs:
            self._graphs[k] = EntryGraph(self.crates[crate], entry)
        return self._graphs[k]

    def graph_at(self, crate, inst_key, label=None):
        """graph rooted at an arbitrary (non-entry) function instance of a crate"""
        k = (crate, '@' + inst_key)
        if k not in self._graphs:
            self._graphs[k] = EntryGraph(self.crates[crate], label or inst_key.split('::')[-1], root_key=inst_key)
        return self._graphs[k]

    def all_entries(self):
        for cn, c in self.crates.items():
            for e in sorted(c.entries):
                yield cn, e


# --------------------------------------------------------------------------------------------
# per-body preparation: successors, definitions, reaching definitions
# --------------------------------------------------------------------------------------------

def op_local(o):
    """local of a copy/move operand without projection, else None"""
    if o['k'] in ('copy', 'move') and not o['pl'].get('p'):
        return o['pl']['l']
    return None


def succs(term):
    t = term['t']
    if t in ('goto', 'drop', 'assert'):
        return [term['to']]
    if t == 'switch':
        return [b for _, b in term['arms']] + [term['otherwise']]
    if t == 'call':
        return [term['to']] if term['to'] >= 0 else []
    return []


REF_PRESERVING = re.compile(r' as core::ops::DerefMut>::deref_mut$| as core::ops::Deref>::deref$| as core::convert::AsMut<.*>>::as_mut$|'
                            r' as core::borrow::BorrowMut<.*>>::borrow_mut$|core::slice::index::<impl core::ops::IndexMut<.*> for \[.*\]>::index_mut$|'
                            r'core::array::<impl core::ops::IndexMut<.*> for \[.*\]>::index_mut$')


def prep_body(body):
    """Annotates a body with:
    body['defs']  : list of definitions (id -> dict(local, bb, idx, kind, ...)); idx == len(st) for terminator
    body['rd_in'] : per block: dict local -> frozenset(def ids) reaching block entry
    body['refs']  : local -> (place, mut) for single-def reference temporaries (syntactic alias resolution)
    """
    blocks = body['blocks']
    n = len(blocks)
    # single-def reference temporaries (and reference-preserving re-wrappings of them)
    assigns = {}
    for bi, b in enumerate(blocks):
        if b['cleanup']:
            continue
        for s in b['st']:
            if s['s'] == 'assign' and not s['pl'].get('p'):
                assigns.setdefault(s['pl']['l'], []).append(s['rv'])
        t = b['term']
        if t['t'] == 'call' and not t['dest'].get('p'):
            assigns.setdefault(t['dest']['l'], []).append(('call', t))
    refs = {}
    alias = {}     # local holding a reference derived from another reference local
    alias_via = {}  # ... through a call that selects a PART of the pointee (`buf[a..b]`): the call term (its index operand names the part)
    for l, rvs in assigns.items():
        if len(rvs) != 1:
            continue
        rv = rvs[0]
        if isinstance(rv, tuple):
            t = rv[1]
            if REF_PRESERVING.search(t['callee']) and t['args'] and op_local(t['args'][0]) is not None:
                alias[l] = op_local(t['args'][0])
                if len(t['args']) == 2 and t['callee'].endswith('::index_mut'):
                    alias_via[l] = t
            continue
        if rv['r'] in ('ref', 'rawptr'):
            refs[l] = (rv['pl'], rv.get('mut', False))
        elif rv['r'] == 'cast' and op_local(rv['a']) is not None and rv['ty'].startswith('&'):
            alias[l] = op_local(rv['a'])
        elif rv['r'] == 'use' and op_local(rv['o']) is not None and body['locals'][l].startswith('&'):
            alias[l] = op_local(rv['o'])
    body['refs'] = refs

    argc_ = body.get('argc', 0)

    def resolve_ref(l, depth=0):
        """local holding a reference -> (base local, projection beyond derefs) it points to, or None.
        A chain that ends in a by-reference PARAMETER yields (('param', i), proj): the pointee lives in the caller."""
        if depth > 10:
            return None
        if l in alias:
            return resolve_ref(alias[l], depth + 1)
        if l not in refs:
            if 1 <= l <= argc_ and body['locals'][l].startswith('&'):
                return (('param', l), [])
            return None
        pl, _ = refs[l]
        proj = pl.get('p', [])
        if proj and proj[0] == '*':
            inner = resolve_ref(pl['l'], depth + 1)
            if inner is None:
                return None
            return (inner[0], inner[1] + [e for e in proj[1:]])
        return (pl['l'], list(proj))
    body['resolve_ref'] = resolve_ref

    defs = []
    gen = [dict() for _ in range(n)]      # bb -> local -> last def id in block (strong)
    per_stmt = [[] for _ in range(n)]     # bb -> list of (idx, def id)

    def add_def(bi, idx, local, kind, **kw):
        d = dict(id=len(defs), local=local, bb=bi, idx=idx, kind=kind)
        d.update(kw)
        defs.append(d)
        per_stmt[bi].append((idx, d['id']))
        return d

    for bi, b in enumerate(blocks):
        if b['cleanup']:
            continue
        for idx, s in enumerate(b['st']):
            if s['s'] == 'assign':
                pl = s['pl']
                if not pl.get('p'):
                    add_def(bi, idx, pl['l'], 'assign', rv=s['rv'], at=s.get('at'))
                else:
                    add_def(bi, idx, pl['l'], 'partial', pl=pl, rv=s['rv'], at=s.get('at'))
            elif s['s'] == 'setdiscr':
                pass
        t = b['term']
        idx = len(b['st'])
        if t['t'] == 'call':
            # &mut arguments update their pointee: always for leaf calls, and for walked callees that (transitively) write
            # through that parameter (summary body['mut_params'], computed by Crate._prep before the definitions are built)
            callee_mut = None
            if not t['leaf']:
                cb = (body.get('_crate_inst') or {}).get(t['callee'])
                callee_mut = cb.get('mut_params', set()) if cb is not None else set()
            if not t.get('closure_call'):
                for ai, a in enumerate(t['args']):
                    al = op_local(a)
                    if al is None:
                        continue
                    ty = t['argtys'][ai] if ai < len(t.get('argtys', [])) else ''
                    if not ty.startswith('&mut '):
                        continue
                    if REF_PRESERVING.search(t['callee']):
                        continue
                    if callee_mut is not None and (ai + 1) not in callee_mut:
                        continue
                    r = resolve_ref(al)
                    if r is None or isinstance(r[0], tuple):
                        continue
                    via = []
                    x_ = al
                    for _ in range(10):
                        if x_ in alias_via:
                            via.append(alias_via[x_])
                        if x_ in alias:
                            x_ = alias[x_]
                        elif x_ in refs and (refs[x_][0].get('p') or [None])[0] == '*':
                            x_ = refs[x_][0]['l']
                        else:
                            break
                    add_def(bi, idx, r[0], 'mut', term=t, argi=ai, proj=r[1], via=via)
            if not t['dest'].get('p'):
                add_def(bi, idx, t['dest']['l'], 'call', term=t)
            else:
                add_def(bi, idx, t['dest']['l'], 'partial', pl=t['dest'], rv=None, term=t)
    body['defs'] = defs
    body['defs_at'] = per_stmt

    # reaching definitions (forward, may): strong update for assign/call/mut, weak for partial
    strong = lambda d: d['kind'] in ('assign', 'call', 'mut')
    preds = [[] for _ in range(n)]
    for bi, b in enumerate(blocks):
        if b['cleanup']:
            continue
        for s in succs(b['term']):
            if not blocks[s]['cleanup']:
                preds[s].append(bi)

    def transfer(bi, inn):
        out = dict(inn)
        for idx, did in per_stmt[bi]:
            d = defs[did]
            if strong(d):
                out[d['local']] = frozenset([did])
            else:
                out[d['local']] = out.get(d['local'], frozenset()) | frozenset([did])
        return out

    rd_in = [dict() for _ in range(n)]
    rd_out = [None] * n
    work = deque([0])
    inq = {0}
    while work:
        bi = work.popleft()
        inq.discard(bi)
        inn = {}
        for p in preds[bi]:
            if rd_out[p] is None:
                continue
            for l, s in rd_out[p].items():
                if l in inn:
                    inn[l] = inn[l] | s
                else:
                    inn[l] = s
        rd_in[bi] = inn
        out = transfer(bi, inn)
        if out != rd_out[bi]:
            rd_out[bi] = out
            for s in succs(blocks[bi]['term']):
                if not blocks[s]['cleanup'] and s not in inq:
                    inq.add(s)
                    work.append(s)
    body['rd_in'] = rd_in
    body['preds'] = preds


def reaching(body, bb, idx, local):
    """def ids of `local` reaching the point just before statement idx of block bb"""
    cur = body['rd_in'][bb].get(local, frozenset())
    for i, did in body['defs_at'][bb]:
        if i >= idx:
            break
        d = body['defs'][did]
        if d['local'] != local:
            continue
        if d['kind'] in ('assign', 'call', 'mut'):
            cur = frozenset([did])
        else:
            cur = cur | frozenset([did])
    return cur


# --------------------------------------------------------------------------------------------
# terms
# --------------------------------------------------------------------------------------------

TRANSPARENT = (
    ' as core::clone::Clone>::clone',
    ' as core::convert::Into<',
    ' as core::convert::From<',
    ' as core::convert::AsRef<',
    ' as core::borrow::Borrow<',
    ' as core::ops::Deref>::deref',
    ' as core::ops::DerefMut>::deref_mut',
    ' as soroban_sdk::IntoVal<',
    ' as soroban_sdk::TryFromVal<',
    ' as core::iter::IntoIterator>::into_iter',
    '::to_val',
    '::to_array',
    '::to_bytes',
    '::to_alloc_vec',
    '::as_le_slice',
    'soroban_sdk::Bytes::from_slice',
    'soroban_sdk::Bytes::from_array::<',
    'soroban_sdk::BytesN::<32>::from_array',
    'soroban_sdk::BytesN::<64>::from_array',
)
# for these the interesting operand is not argument 0 (env first)
TRANSPARENT_ARG1 = ('soroban_sdk::Bytes::from_slice', 'soroban_sdk::Bytes::from_array::<', 'soroban_sdk::BytesN::<32>::from_array',
                    'soroban_sdk::BytesN::<64>::from_array')


def transparent_arg(callee):
    for t in TRANSPARENT_ARG1:
        if t in callee:
            return 1
    for t in TRANSPARENT:
        if t in callee:
            # From::from on error types is an opaque conversion only for '?'; keep transparent
            return 0
    return None


def short(callee):
    """strip the leading crate segment duplicated by def_path_str"""
    return callee


def _has_phi(t):
    stack = [t]
    n = 0
    while stack:
        x = stack.pop()
        n += 1
        if n > 20000:
            return True
        if isinstance(x, tuple):
            if x and x[0] == 'phi':
                return True
            stack.extend(y for y in x if isinstance(y, tuple))
    return False


class Ctx:
    __slots__ = ('id', 'key', 'body', 'parent', 'callbb', 'children', 'closure_call', 'is_promoted', 'depth')

    def __init__(self, cid, key, body, parent, callbb, closure_call=False):
        self.id = cid
        self.key = key
        self.body = body
        self.parent = parent
        self.callbb = callbb
        self.children = {}
        self.closure_call = closure_call
        self.depth = 0 if parent is None else parent.depth + 1


def is_client_stub(term):
    sa = term.get('self_adt', '')
    if not sa.endswith('Client'):
        return False
    d = term.get('cdef', '')
    if d.startswith('<') and ' as ' in d.split('>::')[0]:
        return False          # a workspace trait implemented FOR a client type (an extension trait) is ordinary code, not a generated stub
    name = d.rsplit('::', 1)[-1]
    return name not in ('new',)


class EntryGraph:
    MAX_CTX = 20000

    def __init__(self, crate, entry, root_key=None):
        self.crate = crate
        self.entry = entry
        self.root_key = root_key or crate.entries[entry]
        self.ctxs = []
        self._term_cache = {}
        self._mu_seen = set()
        self._S_ids = {}
        self._pre_cache = {}
        self._pred = None
        self._build_ctx_tree()
        self._term_cache = {}      # terms evaluated while resolving fn pointers saw an incomplete tree
        self._explore()

    def abi_params(self):
        """names of the entry function's parameters in ABI order (the leading Env is skipped)"""
        root = self.ctxs[0]
        out = []
        for l in range(1, root.body['argc'] + 1):
            ty = root.body['locals'][l]
            if ty in ('soroban_sdk::Env', '&soroban_sdk::Env'):
                continue
            out.append(self.param_name(root, l))
        return out

    def P(self, i):
        """term of the i-th ABI parameter (1-based)"""
        ps = self.abi_params()
        if i - 1 >= len(ps):
            return ('missing-param', i)
        return ('param', ps[i - 1])

    def param_type(self, i):
        root = self.ctxs[0]
        n = 0
        for l in range(1, root.body['argc'] + 1):
            ty = root.body['locals'][l]
            if ty in ('soroban_sdk::Env', '&soroban_sdk::Env'):
                continue
            n += 1
            if n == i:
                return ty
        return None

    # ---------------- context tree ----------------
    def _new_ctx(self, key, parent, callbb, closure_call=False):
        body = self.crate.inst[key]
        c = Ctx(len(self.ctxs), key, body, parent, callbb, closure_call)
        self.ctxs.append(c)
        if len(self.ctxs) > self.MAX_CTX:
            raise ValueError('context explosion in %s::%s' % (self.crate.name, self.entry))
        return c

    def walked(self, term):
        """is this call expanded (callee body cloned) rather than a leaf node?"""
        if term['leaf']:
            return False
        if term['callee'] not in self.crate.inst:
            return False
        if is_client_stub(term):
            return False
        return True

    def leaf_closure(self, term):
        """closure body that a leaf 'may call' (storage update(key, |old| new), iterator adaptors such as
        for_each / map / try_for_each taking a workspace closure): its body is walked as a child context."""
        if self.walked(term):
            return None
        for k in term.get('closures', []):
            if k in self.crate.inst:
                return k
        # a workspace function ITEM handed to a leaf (`v.sort_by(Self::order)`, `opt.map(helper)` in unwalked library code): the leaf may
        # call it - its effects belong to this call site just like a closure's
        for a in term.get('args', []):
            if a.get('k') == 'const' and a.get('fnkey') in self.crate.inst and not self.crate.inst[a['fnkey']].get('is_closure'):
                return a['fnkey']
        return None

    @staticmethod
    def closure_always_called(term):
        return re.search(r'storage::(Persistent|Instance|Temporary)::(try_)?update::<', term['callee']) is not None

    def _build_ctx_tree(self):
        root = self._new_ctx(self.root_key, None, None)
        self._expand_ctx(root)

    def _const_term(self, key):
        """value of a constant item whose initialiser body was extracted (tables / structs over workspace types and function pointers):
        the body is evaluated like a call without arguments, const fn calls in it are walked"""
        ct = self.__dict__.setdefault('_const_terms', {})
        if key not in ct:
            ct[key] = ('opaque', 'const-cycle')
            c = self._new_ctx(key, None, None)
            self._expand_ctx(c)
            ct[key] = self.return_term(c)
        return ct[key]

    def _expand_ctx(self, root):
        stack = [root]
        while stack:
            c = stack.pop()
            # recursion check
            for bi, b in enumerate(c.body['blocks']):
                if b['cleanup']:
                    continue
                t = b['term']
                if t['t'] != 'call':
                    continue
                ck = None
                cc = False
                if self.walked(t):
                    ck = t['callee']
                    cc = t.get('closure_call', False)
                elif t['callee'].startswith('INDIRECT') and t.get('func'):
                    # a call through a `fn` pointer: in this calling context the pointer is a known function item (passed down as an
                    # argument) - walk it like a direct call; an unresolvable pointer stays an opaque effect (model.py)
                    ft = self.term_operand(c, bi, len(b['st']), t['func'])
                    while isinstance(ft, tuple) and ft and ft[0] == 'cast':
                        ft = ft[3]
                    if isinstance(ft, tuple) and ft and ft[0] == 'fn' and len(ft) > 2 and ft[2] in self.crate.inst:
                        ck = ft[2]
                elif not t['callee'].startswith('INDIRECT'):
                    lk = self.leaf_closure(t)
                    if lk:
                        ck = lk
                        cc = 'leafclosure'
                if ck is None:
                    continue
                p = c
                while p is not None:
                    if p.key == ck:
                        raise ValueError('recursion through %s' % ck)
                    p = p.parent
                ch = self._new_ctx(ck, c, bi, cc)
                c.children[bi] = ch
                stack.append(ch)

    # ---------------- terms ----------------
    def param_name(self, ctx, local):
        for n, pl in ctx.body['names'].items():
            if pl['l'] == local and not pl.get('p'):
                return n
        return '_%d' % local

    # ---- path-sensitive evaluation: a value used at a program point is evaluated twice when it contains a phi - the second time
    # definitions from which no abstract state can reach the states of the USE node are dropped (a tag fixed earlier on the path,
    # e.g. an enum "which path" value matched later, selects the matching alternative of data merged alongside it)
    _in_top = False
    _S = None
    _S_id = 0

    def _top(self, ctx, bb, fn):
        if self._in_top or ctx.id < 0:
            return fn()
        self._in_top = True
        try:
            t = fn()
            if not _has_phi(t):
                return t
            S = frozenset(self.node_states.get((ctx.id, bb), ())) if hasattr(self, 'node_states') else None
            if not S:
                return t
            self._S = S
            self._S_id = self._S_ids.setdefault(S, len(self._S_ids) + 1)
            try:
                return fn()
            finally:
                self._S = None
                self._S_id = 0
        finally:
            self._in_top = False

    def _pre_star(self):
        """states from which some state of the current use node is reachable"""
        r = self._pre_cache.get(self._S_id)
        if r is not None:
            return r
        if self._pred is None:
            pred = [[] for _ in self.states]
            for s, outs in enumerate(self.succ):
                for d, _ in outs:
                    pred[d].append(s)
            self._pred = pred
        seen = set(self._S)
        work = list(self._S)
        while work:
            x = work.pop()
            for p_ in self._pred[x]:
                if p_ not in seen:
                    seen.add(p_)
                    work.append(p_)
        self._pre_cache[self._S_id] = seen
        return seen

    def term_operand(self, ctx, bb, idx, o, depth=0):
        return self._top(ctx, bb, lambda: self._term_operand(ctx, bb, idx, o, depth))

    def _term_operand(self, ctx, bb, idx, o, depth=0):
        if o['k'] == 'const':
            if 'promoted' in o:
                pb = ctx.body['promoted'][o['promoted']]
                return self._promoted_term(ctx, o['promoted'], pb)
            if 'fn' in o:
                return ('fn', o['fn'], o.get('fnkey'))
            if o.get('cbody') in self.crate.inst:
                return self._const_term(o['cbody'])
            if 'item' in o:
                return ('const', o['v'], o['item'])
            return ('const', o['v'])
        if o['k'] in ('copy', 'move'):
            return self.term_place(ctx, bb, idx, o['pl'], depth)
        return ('opaque', str(o.get('d')))

    def _promoted_term(self, ctx, pi, pb):
        key = ('prom', ctx.body['key'], pi)
        if key in self._term_cache:
            return self._term_cache[key]
        # a promoted body is straight-line: evaluate _0 at its return
        pctx = Ctx(-1, ctx.key + '#p%d' % pi, pb, None, None)
        pb.setdefault('names', {})
        pb.setdefault('promoted', ctx.body['promoted'])
        pb['key'] = ctx.body['key'] + '#p%d' % pi
        last = len(pb['blocks']) - 1
        for bi, b in enumerate(pb['blocks']):
            if b['term']['t'] == 'return':
                last = bi
        t = self.term_local(pctx, last, len(pb['blocks'][last]['st']), 0, 0)
        self._term_cache[key] = t
        return t

    def term_place(self, ctx, bb, idx, pl, depth=0):
        base = self.term_local(ctx, bb, idx, pl['l'], depth)
        return self.project(base, pl.get('p', []))

    def project(self, base, proj):
        variant = None
        for e in proj:
            if e == '*':
                continue
            if 'v' in e:
                variant = e['n'] or str(e['v'])
                continue
            if 'f' in e:
                base = self.proj_field(base, e['n'] or str(e['f']), e['f'], variant)
                variant = None
            elif 'ci' in e:
                # element at a constant position (written by the iterator rewrites for statically known arrays)
                b_ = base
                while b_[0] == 'cast':
                    b_ = b_[3]
                base = b_[1][e['ci']] if b_[0] == 'array' and e['ci'] < len(b_[1]) else ('index', base, 'const %d' % e['ci'])
            else:
                base = ('index', base, e.get('o'))
        if variant is not None:
            base = ('as', variant, base)
        return base

    def proj_field(self, base, name, idx, variant):
        h = base[0]
        if h == 'phi':
            return ('phi', tuple(self.proj_field(x, name, idx, variant) for x in base[1]))
        if variant is None:
            if h == 'struct':
                for (n, t) in base[2]:
                    if n == name:
                        return t
            if h == 'tuple' and idx < len(base[1]):
                return base[1][idx]
            if h == 'closure' and idx < len(base[2]):
                return base[2][idx]
            if h == 'upd':
                # ('upd', old, fieldname, val)
                if base[2] == name:
                    return base[3]
                return self.proj_field(base[1], name, idx, variant)
            return ('field', name, base)
        # downcast + field
        if h == 'variant' and base[2] == variant:
            if idx < len(base[3]):
                return base[3][idx]
        if h == 'variant' and base[2] != variant:
            return ('never',)
        if h == 'const' and variant == 'Some' and isinstance(base[1], str) and re.search(r'(^|::)Option::<.*>::None$', base[1].replace('const ', '')):
            return ('never',)         # a constant None has no Some payload
        return ('payload', variant, idx, base)

    def term_local(self, ctx, bb, idx, local, depth=0):
        return self._top(ctx, bb, lambda: self._term_local(ctx, bb, idx, local, depth))

    def _term_local(self, ctx, bb, idx, local, depth=0):
        ck = (ctx.id, ctx.body.get('key'), bb, idx, local, self._S_id)
        if ck in self._term_cache:
            v = self._term_cache[ck]
            if v is None:
                # cycle: loop-carried value
                self._mu_seen.add(ck)
                return ('mu', ctx.id, local)
            return v
        if depth > 400:
            return ('deep',)
        self._term_cache[ck] = None
        saved = self._mu_seen
        self._mu_seen = set()
        body = ctx.body
        rd = self._live_defs(ctx, reaching(body, bb, idx, local))
        outs = []
        argc = body.get('argc', 0)
        if not rd:
            if 1 <= local <= argc:
                outs.append(self.param_term(ctx, local, depth))
            else:
                outs.append(('undef', local))
        else:
            for did in sorted(rd):
                outs.append(self.term_def(ctx, body['defs'][did], depth + 1))
        uniq = []
        for o in outs:
            if o not in uniq:
                uniq.append(o)
        t = uniq[0] if len(uniq) == 1 else ('phi', tuple(uniq))
        pending = self._mu_seen - {ck}
        if pending:
            # depends on a loop head still being evaluated: valid only in that context, do not cache
            del self._term_cache[ck]
        else:
            self._term_cache[ck] = t
        self._mu_seen = saved | pending
        return t

    def _live_defs(self, ctx, rd):
        """reaching definitions located in blocks that the abstract exploration never enters in this calling context cannot contribute
        a value (e.g. the other arm of a `match` on an enum whose variant the caller fixed): drop them from the phi"""
        if not rd or ctx.id < 0 or len(rd) < 2:
            return rd
        ns = getattr(self, 'node_states', None)
        if not ns:
            return rd
        live = [d for d in rd if (ctx.id, ctx.body['defs'][d]['bb']) in ns]
        if self._S is not None and len(live) > 1:
            pre = self._pre_star()
            feas = [d for d in live if any(s_ in pre for s_ in ns[(ctx.id, ctx.body['defs'][d]['bb'])])]
            if feas:
                live = feas
        return frozenset(live) if live else rd

    def param_term(self, ctx, local, depth):
        if ctx.parent is None:
            if ctx.id == -1:
                return ('undef', local)
            return ('param', self.param_name(ctx, local))
        p = ctx.parent
        t = p.body['blocks'][ctx.callbb]['term']
        idx = len(p.body['blocks'][ctx.callbb]['st'])
        if ctx.closure_call == 'leafclosure':
            # closure invoked by a leaf: _1 = the closure value, other params = leaf-provided values
            if local == 1 and ctx.body.get('is_closure'):
                for a in t['args']:
                    at = self.term_operand(p, ctx.callbb, idx, a, depth + 1)
                    if at[0] == 'closure':
                        return at
                return ('opaque', 'closure-env')
            return ('leafarg', self.leaf_term(p, ctx.callbb), local)
        if ctx.closure_call:
            if local == 1:
                return self.term_operand(p, ctx.callbb, idx, t['args'][0], depth + 1)
            tup = self.term_operand(p, ctx.callbb, idx, t['args'][1], depth + 1) if len(t['args']) > 1 else ('tuple', ())
            if tup[0] == 'tuple' and local - 2 < len(tup[1]):
                return tup[1][local - 2]
            return ('field', str(local - 2), tup)
        if local - 1 < len(t['args']):
            return self.term_operand(p, ctx.callbb, idx, t['args'][local - 1], depth + 1)
        return ('undef', local)

    def leaf_term(self, ctx, bb):
        """term of the result of the leaf call terminating block bb"""
        body = ctx.body
        t = body['blocks'][bb]['term']
        idx = len(body['blocks'][bb]['st'])
        args = tuple(self.term_operand(ctx, bb, idx, a) for a in t['args'])
        return self.make_call(t, args, (ctx.id, bb))

    def make_call(self, t, args, site):
        callee = t['callee']
        ta = transparent_arg(callee)
        if ta is not None and ta < len(args):
            return args[ta]
        return ('call', callee, args, site)

    def term_def(self, ctx, d, depth):
        return self._top(ctx, d['bb'], lambda: self._term_def(ctx, d, depth))

    def _term_def(self, ctx, d, depth):
        k = d['kind']
        if k == 'assign':
            return self.term_rvalue(ctx, d['bb'], d['idx'], d['rv'], depth)
        if k == 'call':
            t = d['term']
            if d['bb'] in ctx.children and ctx.children[d['bb']].closure_call != 'leafclosure':
                ch = ctx.children[d['bb']]
                return self.return_term(ch, depth)
            args = tuple(self.term_operand(ctx, d['bb'], d['idx'], a, depth) for a in t['args'])
            return self.make_call(t, args, (ctx.id, d['bb']))
        if k == 'mut':
            t = d['term']
            ch = ctx.children.get(d['bb'])
            if ch is not None and ch.closure_call != 'leafclosure' and not ch.closure_call and len(d.get('proj') or []) <= 1:
                # a walked callee wrote through its `&mut` parameter (`state.step(item)`): the new value of the caller's variable is
                # the value the callee's parameter designates when it returns
                pl_ = d['argi'] + 1
                outs = []
                for bi_, blk_ in enumerate(ch.body['blocks']):
                    if not blk_['cleanup'] and blk_['term']['t'] == 'return' and (not hasattr(self, 'node_states') or (ch.id, bi_) in self.node_states):
                        outs.append(self.term_local(ch, bi_, len(blk_['st']), pl_, depth + 1))
                uniq = []
                for o_ in outs:
                    if o_ not in uniq:
                        uniq.append(o_)
                if uniq:
                    new = uniq[0] if len(uniq) == 1 else ('phi', tuple(uniq))
                    pj = d.get('proj') or []
                    if not pj:
                        return new
                    if isinstance(pj[0], dict) and 'f' in pj[0]:
                        old = self.term_local(ctx, d['bb'], d['idx'], d['local'], depth)
                        return ('upd', old, pj[0].get('n') or str(pj[0]['f']), new)
            old = self.term_local(ctx, d['bb'], d['idx'], d['local'], depth)
            args = tuple(self.term_operand(ctx, d['bb'], d['idx'], a, depth)
                         for i, a in enumerate(t['args']) if i != d['argi'])
            if d.get('via'):
                # the part of the variable the call wrote (`buf[a..b].copy_from_slice(src)`): the index operands, evaluated where the
                # sub-slice was taken
                vb = {id(blk_['term']): bi_ for bi_, blk_ in enumerate(ctx.body['blocks'])}
                vt = tuple(self.term_operand(ctx, vb[id(v_)], len(ctx.body['blocks'][vb[id(v_)]]['st']), v_['args'][1], depth)
                           for v_ in d['via'] if id(v_) in vb)
                return ('mut', t['callee'], old, args, vt)
            return ('mut', t['callee'], old, args)
        if k == 'partial':
            old = self.term_local(ctx, d['bb'], d['idx'], d['local'], depth)
            if d.get('rv') is not None:
                val = self.term_rvalue(ctx, d['bb'], d['idx'], d['rv'], depth)
            else:
                val = ('callres', d['term']['callee'])
            fld = None
            for e in d['pl'].get('p', []):
                if e != '*' and 'f' in e:
                    fld = e['n'] or str(e['f'])
            return ('upd', old, fld, val)
        return ('opaque', k)

    def return_term(self, ch, depth=0):
        """term of _0 at the return(s) of a child context"""
        body = ch.body
        outs = []
        for bi, b in enumerate(body['blocks']):
            if b['cleanup']:
                continue
            if b['term']['t'] == 'return':
                outs.append(self.term_local(ch, bi, len(b['st']), 0, depth + 1))
        uniq = []
        for o in outs:
            if o not in uniq:
                uniq.append(o)
        if not uniq:
            return ('never',)
        return uniq[0] if len(uniq) == 1 else ('phi', tuple(uniq))

    def term_rvalue(self, ctx, bb, idx, rv, depth):
        k = rv['r']
        T = lambda o: self.term_operand(ctx, bb, idx, o, depth)
        if k == 'use':
            return T(rv['o'])
        if k in ('ref', 'rawptr'):
            return self.term_place(ctx, bb, idx, rv['pl'], depth)
        if k == 'bin':
            return ('bin', rv['op'], T(rv['a']), T(rv['b']))
        if k == 'un':
            return ('un', rv['op'], T(rv['a']))
        if k == 'cast':
            return ('cast', rv['ty'], rv['kind'], T(rv['a']))
        if k == 'discr':
            return ('discr', self.term_place(ctx, bb, idx, rv['pl'], depth), rv.get('ty', ''))
        if k == 'repeat':
            return ('repeat', T(rv['a']), rv['n'])
        if k == 'agg':
            ops = tuple(T(o) for o in rv['ops'])
            kind = rv['kind']
            if kind == 'tuple':
                return ('tuple', ops)
            if kind == 'array':
                return ('array', ops)
            if kind == 'adt':
                if rv.get('is_enum'):
                    return ('variant', rv['adt'], rv['variant'], ops)
                return ('struct', rv['adt'], tuple(zip(rv['fields'], ops)))
            if kind == 'closure':
                return ('closure', rv['def'], ops)
            return ('agg', kind, ops)
        return ('opaque', rv.get('d', k))

    # ---------------- def-use chains (guarded value flow) ----------------
    @staticmethod
    def _proj_path(pl):
        """projection of a place as a hashable path: ('f', idx, name) field / ('v', idx, name) downcast (derefs dropped)"""
        path = []
        for e in pl.get('p', []):
            if e == '*':
                continue
            if 'v' in e:
                path.append(('v', e['v'], e['n'] or str(e['v'])))
            elif 'f' in e:
                path.append(('f', e['f'], e['n'] or str(e['f'])))
            else:
                path.append(('o', 0, '[]'))
        return tuple(path)

    def def_chains(self, ctx, bb, idx, place, limit=600):
        """Backward def-use chains from the value of `place` (dict l/p, or a local number) at the point (bb, idx):
        list of (nodes, leaf_term) where nodes are the (ctx id, bb) of every definition the selected
        (sub)value passes through — copies, moves, casts, arithmetic, struct/tuple/variant construction (only the
        selected field / matching variant is followed), returns of walked callees, parameter passing — newest
        first, and leaf_term is the normalised term of the originating definition."""
        from norm import norm as _norm
        if isinstance(place, int):
            place = {'l': place}
        out = []
        budget = [limit]

        def leaf(nodes, term, path):
            budget[0] -= 1
            elems = []
            for kind, i, n in path:
                if kind == 'v':
                    elems.append({'v': i, 'n': n})
                elif kind == 'f':
                    elems.append({'f': i, 'n': n})
                else:
                    elems.append({'o': n})
            t = self.project(term, elems) if elems else term
            out.append((nodes, _norm(t)))

        def follow_operand(c, b, i, o, path, nodes, seen):
            if o['k'] in ('copy', 'move'):
                walk(c, b, i, o['pl']['l'], self._proj_path(o['pl']) + path, nodes, seen)
            else:
                leaf(nodes, self.term_operand(c, b, i, o), path)

        def walk(c, b, i, l, path, nodes, seen):
            if budget[0] <= 0:
                return
            key = (c.id, c.body.get('key'), b, i, l, path)
            if key in seen:
                return
            seen = seen | {key}
            rd = self._live_defs(c, reaching(c.body, b, i, l))
            if not rd:
                if 1 <= l <= c.body.get('argc', 0) and c.parent is not None and c.closure_call != 'leafclosure':
                    p = c.parent
                    t = p.body['blocks'][c.callbb]['term']
                    pi = len(p.body['blocks'][c.callbb]['st'])
                    if c.closure_call:
                        if l == 1:
                            follow_operand(p, c.callbb, pi, t['args'][0], path, nodes, seen)
                        elif len(t['args']) > 1:
                            follow_operand(p, c.callbb, pi, t['args'][1], (('f', l - 2, str(l - 2)),) + path, nodes, seen)
                        return
                    if l - 1 < len(t['args']):
                        follow_operand(p, c.callbb, pi, t['args'][l - 1], path, nodes, seen)
                        return
                leaf(nodes, self.term_local(c, b, i, l), path)
                return
            for did in sorted(rd):
                d = c.body['defs'][did]
                n2 = nodes + [(c.id, d['bb'])]
                if d['kind'] == 'assign':
                    rv = d['rv']
                    k = rv['r']
                    if k == 'use':
                        follow_operand(c, d['bb'], d['idx'], rv['o'], path, n2, seen)
                    elif k in ('ref', 'rawptr'):
                        walk(c, d['bb'], d['idx'], rv['pl']['l'], self._proj_path(rv['pl']) + path, n2, seen)
                    elif k == 'cast':
                        follow_operand(c, d['bb'], d['idx'], rv['a'], path, n2, seen)
                    elif k == 'bin':
                        # arithmetic: the result derives from both operands (checked ops yield a (value, flag) pair)
                        p2 = path[1:] if path and path[0][0] == 'f' and rv['op'].endswith('WithOverflow') else path
                        any_local = False
                        for o in (rv['a'], rv['b']):
                            if o['k'] in ('copy', 'move'):
                                any_local = True
                                follow_operand(c, d['bb'], d['idx'], o, p2, n2, seen)
                        if not any_local:
                            leaf(n2, self.term_def(c, d, 0), path)
                    elif k == 'agg' and rv['kind'] in ('adt', 'tuple'):
                        ops = rv['ops']
                        pth = path
                        if rv['kind'] == 'adt' and rv.get('is_enum'):
                            if pth and pth[0][0] == 'v':
                                if pth[0][2] != rv['variant']:
                                    continue          # the value read is another variant: this definition cannot be its origin
                                pth = pth[1:]
                            elif pth:
                                leaf(n2, self.term_def(c, d, 0), path)
                                continue
                        if pth and pth[0][0] == 'f':
                            fi = pth[0][1]
                            if fi < len(ops):
                                follow_operand(c, d['bb'], d['idx'], ops[fi], pth[1:], n2, seen)
                            else:
                                leaf(n2, self.term_def(c, d, 0), path)
                        else:
                            leaf(n2, self.term_def(c, d, 0), path)
                    else:
                        leaf(n2, self.term_def(c, d, 0), path)
                elif d['kind'] == 'call':
                    t = d['term']
                    if d['bb'] in c.children and c.children[d['bb']].closure_call != 'leafclosure':
                        ch = c.children[d['bb']]
                        for bi, blk in enumerate(ch.body['blocks']):
                            if not blk['cleanup'] and blk['term']['t'] == 'return':
                                walk(ch, bi, len(blk['st']), 0, path, n2, seen)
                    else:
                        ta = transparent_arg(t['callee'])
                        if ta is not None and ta < len(t['args']):
                            follow_operand(c, d['bb'], d['idx'], t['args'][ta], path, n2, seen)
                        elif re.search(r'core::num::<impl [iu]\d+>::(checked|wrapping|saturating|overflowing)_', t['callee']):
                            p2 = path
                            while p2 and p2[0][0] in ('v', 'f'):
                                p2 = p2[1:]       # Some(..) payload of a checked op is the arithmetic result
                            for o in t['args']:
                                follow_operand(c, d['bb'], d['idx'], o, p2, n2, seen)
                        else:
                            leaf(n2, self.term_def(c, d, 0), path)
                elif d['kind'] == 'mut':
                    # updated through &mut by a leaf (copy_from_slice, push_back, ...): derives from the old value and the other arguments
                    t = d['term']
                    walk(c, d['bb'], d['idx'], d['local'], path, n2, seen)
                    for ai, o in enumerate(t['args']):
                        if ai != d['argi']:
                            follow_operand(c, d['bb'], d['idx'], o, (), n2, seen)
                else:
                    leaf(n2, self.term_def(c, d, 0), path)
        walk(ctx, bb, idx, place['l'], self._proj_path(place), [], frozenset())
        return out

    def operand_chains(self, ctx, bb, o):
        """def-use chains of a call/switch operand at the terminator of block bb"""
        if o['k'] not in ('copy', 'move'):
            return []
        return self.def_chains(ctx, bb, len(ctx.body['blocks'][bb]['st']), o['pl'])

    # ---------------- abstract exploration ----------------
    def _explore(self):
        """Explicit exploration of (ctx, bb, sigma). sigma: frozenset of ((ctx id, local), value).
        values: ('b', bool) | ('t', discr) | ('atom', name, neg) | ('ref', (ctx id, local))
                | ('dof', (ctx id, local))   discriminant-of another tracked place"""
        root = self.ctxs[0]
        sigma0 = {}
        for l in range(1, root.body['argc'] + 1):
            if root.body['locals'][l] == 'bool':
                sigma0[(0, l)] = ('atom', self.param_name(root, l), False)
            elif re.match(r'^[iu](8|16|32|64|128|size)$', root.body['locals'][l]):
                # integer entry parameters: repeated comparisons of the same parameter with the same constant correlate
                sigma0[(0, l)] = ('pv', self.param_name(root, l))
        self.states = []          # id -> (ctx id, bb, sigma)
        self.state_id = {}
        self.succ = []            # id -> list of (dst id, label)
        self.exits = []           # (state id, kind, detail)
        self.node_states = {}     # (ctx id, bb) -> [state ids]

        def intern(cid, bb, sig):
            key = (cid, bb, sig)
            sid = self.state_id.get(key)
            if sid is None:
                sid = len(self.states)
                self.state_id[key] = sid
                self.states.append(key)
                self.succ.append([])
                self.node_states.setdefault((cid, bb), []).append(sid)
                work.append(sid)
            return sid

        work = []
        intern(0, 0, frozenset(sigma0.items()))
        steps = 0
        while work:
            sid = work.pop()
            steps += 1
            if steps > 400000:
                raise ValueError('state explosion in %s::%s' % (self.crate.name, self.entry))
            cid, bb, sig = self.states[sid]
            for (ncid, nbb, nsig, label) in self._step(cid, bb, dict(sig), sid):
                did = intern(ncid, nbb, frozenset(nsig.items()))
                self.succ[sid].append((did, label))

    def _val_place(self, env, cid, pl):
        proj = pl.get('p', [])
        v = env.get((cid, pl['l']))
        if not proj:
            return v
        i = 0
        if proj[0] == '*':
            if v is not None and v[0] == 'ref':
                v = env.get(v[1])
                i = 1
            else:
                return None
        rest = proj[i:]
        # walk field / downcast projections through tracked aggregates
        j = 0
        while j < len(rest):
            e = rest[j]
            if v is not None and e == '*' and v[0] == 'ref':
                v = env.get(v[1])
                j += 1
                continue
            if v is None or not isinstance(e, dict):
                return None
            if 'v' in e:
                # (enum as Variant).field : payload of a tracked variant
                if v[0] == 't' and len(v) > 3 and v[3] == e['v'] and j + 1 < len(rest) and isinstance(rest[j + 1], dict) and 'f' in rest[j + 1]:
                    pay = v[2]
                    f = rest[j + 1]['f']
                    v = pay[f] if f < len(pay) else None
                    j += 2
                    continue
                return None
            if 'f' in e:
                if v[0] == 's' and e['f'] < len(v[1]):
                    v = v[1][e['f']]
                    j += 1
                    continue
                return None
            return None
        return v

    def _target_place(self, env, cid, pl):
        """(ctx, local) cell designated by a place if it is a whole tracked cell"""
        proj = pl.get('p', [])
        if not proj:
            return (cid, pl['l'])
        v = env.get((cid, pl['l']))
        if proj == ['*'] and v is not None and v[0] == 'ref':
            return v[1]
        return None

    def _val_op(self, env, cid, o):
        if o['k'] in ('copy', 'move'):
            return self._val_place(env, cid, o['pl'])
        if o['k'] == 'const':
            if o.get('ty') == 'bool':
                return ('b', o['v'].strip().endswith('true'))
            # a constant unit variant of a workspace enum (`Direction::Take` passed as an argument)
            a = self.crate.adts.get(o.get('ty', ''))
            if a is not None and len(a['variants']) > 1:
                name = o['v'].strip().rsplit('::', 1)[-1]
                for v in a['variants']:
                    if v['name'] == name and not v['fields']:
                        try:
                            return ('t', int(v['discr']))
                        except ValueError:
                            return ('t', v['idx'])
        return None

    def _eval_rv(self, env, cid, rv):
        k = rv['r']
        if k == 'use':
            return self._val_op(env, cid, rv['o'])
        if k == 'un' and rv['op'] == 'Not':
            v = self._val_op(env, cid, rv['a'])
            if v is None:
                return None
            if v[0] == 'b':
                return ('b', not v[1])
            if v[0] == 'atom':
                return ('atom', v[1], not v[2])
            if v[0] == 'bs':
                return ('bs', v[1], not v[2])
            return None
        if k == 'agg' and rv['kind'] == 'adt' and rv.get('is_enum'):
            pay = tuple(self._payload_val(self._val_op(env, cid, o)) for o in rv['ops'])
            if any(x is not None for x in pay):
                return ('t', self.crate.discr_of(rv['adt'], rv['vidx']), pay, rv['vidx'])
            return ('t', self.crate.discr_of(rv['adt'], rv['vidx']))
        if k == 'agg' and rv['kind'] == 'closure':
            # closure environment: captured values and captured references (the borrow checker keeps the referents alive while the
            # closure can run; a reference into a frame that has returned resolves to "unknown")
            pay = []
            for o in rv['ops']:
                v = self._val_op(env, cid, o)
                pay.append(v if v is not None and v[0] in ('b', 't', 's', 'bs', 'atom', 'pv', 'ref') else None)
            if any(x is not None for x in pay):
                return ('s', tuple(pay))
            return None
        if k == 'agg' and (rv['kind'] == 'tuple' or (rv['kind'] == 'adt' and not rv.get('is_enum'))):
            pay = tuple(self._payload_val(self._val_op(env, cid, o)) for o in rv['ops'])
            if any(x is not None for x in pay):
                return ('s', pay)
            return None
        if k == 'discr':
            tgt = self._target_place(env, cid, rv['pl'])
            if tgt is not None:
                v = env.get(tgt)
                if v is not None and v[0] == 't':
                    return ('i', v[1])
                return ('dof', tgt, self._nvariants(rv.get('ty', '')))
            # discriminant of a component of a tracked tuple / struct (`match (a, b)`)
            v = self._val_place(env, cid, rv['pl'])
            if v is not None and v[0] == 't':
                return ('i', v[1])
            return None
        if k == 'bin' and rv['op'] in ('Eq', 'Ne', 'Lt', 'Le', 'Gt', 'Ge'):
            pa = self._stable_op(env, cid, rv['a'])
            pb = self._stable_op(env, cid, rv['b'])
            if pa is not None and pb is not None and (pa[0] == 'p' or pb[0] == 'p'):
                return ('atom', '%s(%s,%s)' % (rv['op'], pa[1], pb[1]), False)
        if k == 'bin' and rv['op'] in ('Eq', 'Ne'):
            a = self._int_op(env, cid, rv['a'])
            b = self._int_op(env, cid, rv['b'])
            if a is not None and b is not None:
                if a[0] == 'i' and b[0] == 'i':
                    r = a[1] == b[1]
                    return ('b', r if rv['op'] == 'Eq' else not r)
                for x, y in ((a, b), (b, a)):
                    if x[0] == 'dof' and y[0] == 'i':
                        return ('dofcmp', x[1], y[1], rv['op'] == 'Eq', x[2] if len(x) > 2 else 0)
        if k == 'bin' and rv['op'] in ('Eq', 'Ne', 'Lt', 'Le', 'Gt', 'Ge') and self._cur is not None:
            # an otherwise unknown comparison result: remember WHERE it was computed, so that a later test of the value (after it
            # went through `&&`/`||` temporaries, a local, a helper's parameter) is still recognised as a test of this comparison
            site = (cid,) + self._cur
            env.pop(('A', site), None)
            return ('bs', site, False)
        if k == 'ref':
            pl = rv['pl']
            proj = pl.get('p', [])
            if not proj:
                return ('ref', (cid, pl['l']))
            if proj == ['*']:
                v = env.get((cid, pl['l']))
                if v is not None and v[0] == 'ref':
                    return v
            return None
        return None

    @staticmethod
    def _payload_val(v):
        """abstract values that may be stored inside a tracked variant (no references to frames)"""
        if v is not None and v[0] in ('b', 't', 's', 'atom', 'bs', 'pv'):
            return v
        return None

    def _nvariants(self, ty):
        ty = ty.lstrip('&').strip()
        if ty.startswith('mut '):
            ty = ty[4:]
        for p in ('core::option::Option<', 'core::result::Result<', 'core::ops::ControlFlow<'):
            if ty.startswith(p):
                return 2
        a = self.crate.adts.get(ty)
        if a is not None:
            return len(a['variants'])
        return 0

    def _stable_op(self, env, cid, o):
        """operand that denotes the same value wherever it is evaluated: an integer entry parameter or an integer constant"""
        if o['k'] == 'const':
            m = re.match(r'^(?:const )?(-?\d+)_(isize|usize|[iu]\d+)$', o['v'].strip())
            return ('c', m.group(1)) if m else None
        v = self._val_op(env, cid, o)
        if v is not None and v[0] == 'pv':
            return ('p', v[1])
        return None

    def _int_op(self, env, cid, o):
        if o['k'] == 'const':
            m = re.match(r'^(?:const )?(-?\d+)_(isize|usize|[iu]\d+)$', o['v'].strip())
            if m:
                return ('i', int(m.group(1)))
            return None
        v = self._val_op(env, cid, o)
        if v is not None and v[0] in ('i', 'dof'):
            return v
        return None

    def _kill_frame(self, env, cid):
        for k in [k for k in env if k[0] == cid or (k[0] == 'A' and isinstance(k[1], tuple) and k[1][0] == cid)]:
            del env[k]

    _cur = None

    def _step(self, cid, bb, env, sid):
        ctx = self.ctxs[cid]
        body = ctx.body
        blk = body['blocks'][bb]
        for si, s in enumerate(blk['st']):
            k = s['s']
            self._cur = (bb, si)
            if k == 'assign':
                pl = s['pl']
                if not pl.get('p'):
                    v = self._eval_rv(env, cid, s['rv'])
                    if v is None:
                        env.pop((cid, pl['l']), None)
                    else:
                        env[(cid, pl['l'])] = v
                else:
                    tgt = self._target_place(env, cid, pl)
                    if tgt is not None:
                        v = self._eval_rv(env, cid, s['rv'])
                        if v is None:
                            env.pop(tgt, None)
                        else:
                            env[tgt] = v
                    else:
                        # partial write into an aggregate: forget what we knew about the base
                        base = (cid, pl['l'])
                        bv = env.get(base)
                        if bv is not None and bv[0] != 'ref':
                            env.pop(base, None)
            elif k == 'setdiscr':
                tgt = self._target_place(env, cid, s['pl'])
                if tgt is not None:
                    env[tgt] = ('t', s['v'])
            elif k == 'dead':
                env.pop((cid, s['l']), None)
        t = blk['term']
        k = t['t']
        self._cur = (bb, len(blk['st']))
        out = []
        if k in ('goto', 'drop'):
            out.append((cid, t['to'], env, None))
        elif k == 'assert':
            out.append((cid, t['to'], env, 'ok'))
            self.exits.append((sid, 'fail', 'assert ' + t.get('msg', '')))
        elif k == 'switch':
            v = self._val_op(env, cid, t['d'])
            arms = t['arms']
            if v is not None and v[0] in ('b', 'i'):
                iv = int(v[1])
                tgt = t['otherwise']
                for a, b in arms:
                    if a == iv:
                        tgt = b
                out.append((cid, tgt, env, iv))
            elif v is not None and v[0] == 'atom':
                name, neg = v[1], v[2]
                for truth in (False, True):
                    atomval = (not truth) if neg else truth
                    cur = env.get(('A', name))
                    if cur is not None and cur[1] != atomval:
                        continue
                    e2 = dict(env)
                    e2[('A', name)] = ('b', atomval)
                    iv = 1 if truth else 0
                    tgt = t['otherwise']
                    for a, b in arms:
                        if a == iv:
                            tgt = b
                    out.append((cid, tgt, e2, iv))
            elif v is not None and v[0] == 'bs':
                site, neg = v[1], v[2]
                for truth in (False, True):
                    siteval = (not truth) if neg else truth
                    cur = env.get(('A', site))
                    if cur is not None and cur[1] != siteval:
                        continue
                    e2 = dict(env)
                    e2[('A', site)] = ('b', siteval)
                    iv = 1 if truth else 0
                    tgt = t['otherwise']
                    for a, b in arms:
                        if a == iv:
                            tgt = b
                    out.append((cid, tgt, e2, ('bs', iv, site, neg)))
            elif v is not None and v[0] == 'dofcmp':
                cell, kk, is_eq, nvar = v[1], v[2], v[3], v[4]
                for truth in (False, True):
                    e2 = dict(env)
                    holds = truth if is_eq else (not truth)     # does discr == kk hold on this branch
                    if holds:
                        e2[cell] = ('t', kk)
                    elif nvar == 2 and kk in (0, 1):
                        e2[cell] = ('t', 1 - kk)
                    iv = 1 if truth else 0
                    tgt = t['otherwise']
                    for a, b in arms:
                        if a == iv:
                            tgt = b
                    out.append((cid, tgt, e2, iv))
            elif v is not None and v[0] == 'dof':
                cell = v[1]
                for a, b in arms:
                    e2 = dict(env)
                    e2[cell] = ('t', a)
                    out.append((cid, b, e2, a))
                out.append((cid, t['otherwise'], dict(env), 'otherwise'))
            else:
                for a, b in arms:
                    out.append((cid, b, dict(env), a))
                out.append((cid, t['otherwise'], dict(env), 'otherwise'))
        elif k == 'return':
            v0 = env.get((cid, 0))
            if v0 is not None and v0[0] == 'bs':
                # a comparison result returned after it was tested on this path: its value is known here
                known = env.get(('A', v0[1]))
                if known is not None:
                    v0 = ('b', (not known[1]) if v0[2] else known[1])
            if ctx.parent is None:
                kind = 'ok'
                if v0 is not None and v0[0] == 't' and body['locals'][0].startswith('core::result::Result<') and v0[1] == 1:
                    kind = 'err'
                self.exits.append((sid, kind, v0))
            else:
                p = ctx.parent
                pt = p.body['blocks'][ctx.callbb]['term']
                self._kill_frame(env, cid)
                if ctx.closure_call == 'leafclosure':
                    # result of the closure is consumed by the leaf; leaf's own dest is unknown
                    env.pop((p.id, pt['dest']['l']), None)
                else:
                    dest = pt['dest']
                    if not dest.get('p'):
                        if v0 is not None and v0[0] in ('b', 't', 'atom', 's', 'bs'):
                            env[(p.id, dest['l'])] = v0
                        else:
                            env.pop((p.id, dest['l']), None)
                if pt['to'] >= 0:
                    out.append((p.id, pt['to'], env, 'ret'))
        elif k == 'call':
            if bb in ctx.children:
                ch = ctx.children[bb]
                if ch.closure_call == 'leafclosure':
                    out.append((ch.id, 0, dict(env), 'call'))
                    if not self.closure_always_called(t) and t['to'] >= 0:
                        # the leaf may also not invoke the closure at all (empty iterator, None, ...)
                        e2 = dict(env)
                        if not t['dest'].get('p'):
                            e2.pop((cid, t['dest']['l']), None)
                        out.append((cid, t['to'], e2, 'ret'))
                else:
                    args = t['args']
                    if ch.closure_call:
                        v = self._val_op(env, cid, args[0]) if args else None
                        if v is not None:
                            env[(ch.id, 1)] = v
                    else:
                        for i, a in enumerate(args):
                            v = self._val_op(env, cid, a)
                            if v is not None and v[0] not in ('dof', 'dofcmp'):
                                env[(ch.id, i + 1)] = v
                    out.append((ch.id, 0, env, 'call'))
            else:
                # leaf: &mut arguments may overwrite their pointee
                for i, a in enumerate(t['args']):
                    ty = t['argtys'][i] if i < len(t.get('argtys', [])) else ''
                    if ty.startswith('&mut '):
                        v = self._val_op(env, cid, a)
                        if v is not None and v[0] == 'ref':
                            env.pop(v[1], None)
                dest = t['dest']
                keep = None
                ta = transparent_arg(t['callee'])
                if ta is not None and ta < len(t['args']) and not dest.get('p'):
                    # identity-like library calls between values of the SAME type (clone, the reflexive From/Into, deref) hand the
                    # tracked abstract value on (a conversion to another type does not: its discriminants mean something else)
                    aty = (t['argtys'][ta] if ta < len(t.get('argtys', [])) else '').lstrip('&').strip()
                    if aty.startswith('mut '):
                        aty = aty[4:]
                    if aty and aty == body['locals'][dest['l']]:
                        v = self._val_op(env, cid, t['args'][ta])
                        if v is not None and v[0] == 'ref':
                            v = env.get(v[1])
                        if v is not None and v[0] in ('b', 't', 's', 'bs', 'atom'):
                            keep = v
                if not dest.get('p'):
                    env.pop((cid, dest['l']), None)
                    if keep is not None:
                        env[(cid, dest['l'])] = keep
                    elif body['locals'][dest['l']] == 'bool':
                        site = (cid, bb, len(blk['st']))
                        env.pop(('A', site), None)
                        env[(cid, dest['l'])] = ('bs', site, False)
                if t['to'] >= 0:
                    out.append((cid, t['to'], env, 'ret'))
                else:
                    self.exits.append((sid, 'fail', 'diverge ' + t['callee']))
        elif k == 'unreachable':
            pass
        else:
            self.exits.append((sid, 'fail', k))
        return out

    def site_term(self, site):
        """term of the boolean computed at a ('bs') site: (ctx id, bb, statement index | len(st) for the call terminator)"""
        cid, bb, idx = site
        ctx = self.ctxs[cid]
        blk = ctx.body['blocks'][bb]
        if idx < len(blk['st']):
            return self.term_rvalue(ctx, bb, idx, blk['st'][idx]['rv'], 0)
        return self.leaf_term(ctx, bb)

    # ---------------- queries ----------------
    def reachable_nodes(self):
        return set(self.node_states.keys())

    def reach(self, start_sids=None, blocked_nodes=(), blocked_edges=()):
        """forward reachability over the state graph. blocked_nodes: set of (cid, bb) that cannot be
        traversed (they can be reached, not left). blocked_edges: set of (cid, bb, label)."""
        blocked_nodes = set(blocked_nodes)
        blocked_edges = set(blocked_edges)
        if start_sids is None:
            start_sids = [0]
        seen = set(start_sids)
        work = list(start_sids)
        while work:
            s = work.pop()
            cid, bb, _ = self.states[s]
            if (cid, bb) in blocked_nodes:
                continue
            for d, label in self.succ[s]:
                if blocked_edges and (cid, bb, label) in blocked_edges:
                    continue
                if d not in seen:
                    seen.add(d)
                    work.append(d)
        return seen

    def nodes_of(self, sids):
        return set((self.states[s][0], self.states[s][1]) for s in sids)

    def ok_exit_sids(self):
        return [s for s, k, _ in self.exits if k == 'ok']

    def must_guard(self, site_nodes, fact_nodes=(), fact_edges=(), start=None):
        """True iff no site node is reachable once facts are blocked. Returns (ok, offending nodes)."""
        r = self.reach(start, fact_nodes, fact_edges)
        rn = self.nodes_of(r)
        bad = [n for n in site_nodes if n in rn and n not in set(fact_nodes)]
        return (not bad, bad)

    def must_follow(self, site_nodes, fact_nodes=(), fact_edges=()):
        """True iff from every state of the site nodes no success exit is reachable without facts."""
        oks = set(self.ok_exit_sids())
        bad = []
        for n in site_nodes:
            sids = self.node_states.get(n, [])
            # start after the site node itself: successors of its states
            starts = []
            for s in sids:
                starts.extend(d for d, _ in self.succ[s])
            r = self.reach(starts, fact_nodes, fact_edges) if starts else set()
            # a blocked fact node reached is fine; exits reached are violations
            if r & oks:
                bad.append(n)
        return (not bad, bad)

    def success_needs(self, fact_nodes=(), fact_edges=()):
        """True iff no success exit STATE is reachable from the entry once the facts are blocked
        (and at least one success exit exists)."""
        oks = set(self.ok_exit_sids())
        if not oks:
            return False
        r = self.reach(None, fact_nodes, fact_edges)
        return not (r & oks)

    def exit_sids(self, pred):
        """success-exit state ids whose abstract return value satisfies pred(v0)"""
        return [s for s, k, v in self.exits if k == 'ok' and pred(v)]

    def exit_term(self, sid):
        """the entry's return value as a term, evaluated for the paths that end in exit state sid only (definitions that cannot
        reach that state are dropped, so a value merged from several paths is the alternative of this path)"""
        cid, bb = self.states[sid][0], self.states[sid][1]
        ctx = self.ctxs[cid]
        S = frozenset([sid])
        old = (self._in_top, self._S, self._S_id)
        self._in_top = True
        self._S = S
        self._S_id = self._S_ids.setdefault(S, len(self._S_ids) + 1)
        try:
            return self._term_local(ctx, bb, len(ctx.body['blocks'][bb]['st']), 0)
        finally:
            self._in_top, self._S, self._S_id = old

    def states_after(self, nodes, blocked_nodes=(), blocked_edges=()):
        starts = []
        for n in nodes:
            for s in self.node_states.get(n, []):
                starts.extend(d for d, _ in self.succ[s])
        return self.reach(starts, blocked_nodes, blocked_edges) if starts else set()

    def states_after_edges(self, edge_list, blocked_nodes=(), blocked_edges=()):
        starts = []
        for (cid, bb, label) in edge_list:
            for s in self.node_states.get((cid, bb), []):
                starts.extend(d for d, lab in self.succ[s] if lab == label)
        return self.reach(starts, blocked_nodes, blocked_edges) if starts else set()

    def path_to(self, node, blocked_nodes=(), blocked_edges=()):
        """a witness path (list of (ctx id, bb)) from entry to node avoiding blocked facts"""
        blocked_nodes = set(blocked_nodes)
        blocked_edges = set(blocked_edges)
        prev = {0: None}
        q = deque([0])
        goal = None
        while q:
            s = q.popleft()
            cid, bb, _ = self.states[s]
            if (cid, bb) == node:
                goal = s
                break
            if (cid, bb) in blocked_nodes:
                continue
            for d, label in self.succ[s]:
                if (cid, bb, label) in blocked_edges:
                    continue
                if d not in prev:
                    prev[d] = s
                    q.append(d)
        if goal is None:
            return None
        path = []
        s = goal
        while s is not None:
            path.append((self.states[s][0], self.states[s][1]))
            s = prev[s]
        path.reverse()
        return path

    # ---------------- node helpers ----------------
    def call_nodes(self):
        """all reachable call terminators that are leaves in this graph: yields (ctx, bb, term)"""
        for (cid, bb) in self.node_states:
            ctx = self.ctxs[cid]
            t = ctx.body['blocks'][bb]['term']
            if t['t'] == 'call' and bb not in ctx.children or \
                    (t['t'] == 'call' and ctx.children[bb].closure_call == 'leafclosure'):
                yield ctx, bb, t

    def arg_terms(self, ctx, bb):
        t = ctx.body['blocks'][bb]['term']
        idx = len(ctx.body['blocks'][bb]['st'])
        return [self.term_operand(ctx, bb, idx, a) for a in t['args']]

    def where(self, ctx, bb):
        t = ctx.body['blocks'][bb]['term']
        at = t.get('at') or ctx.body.get('at')
        return at

    def ctx_chain(self, ctx):
        out = []
        c = ctx
        while c is not None:
            out.append(c.body['def'] if 'def' in c.body else c.key)
            c = c.parent
        return list(reversed(out))
