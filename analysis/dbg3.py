import sys,glob
from prog import *
from model import *
from guards import *
from fmt import fmt
d=sorted(glob.glob('/verif/.cache/facts/*/'), key=os.path.getmtime)[-1]
P=Program(d)
cn,e=sys.argv[1],sys.argv[2]
g=P.graph(cn,e)
for x in sorted(guard_edges(g), key=lambda x:(x.ctx.id,x.bb,str(x.label))):
    print('ctx%d bb%d [%s] %s   @%s [%s]'%(x.ctx.id,x.bb,x.label,fmt(x.cond)[:300],(x.at or '').split('/')[-1], x.ctx.body['def'].split('::')[-1]))
