"""Fact extraction: /repo working tree -> scratch copy -> per-package nightly `cargo check`
through the axl-facts rustc driver -> one JSON fact file per contract crate.

Nothing is executed: `cargo check` only type-checks and the driver reads MIR.
Facts are cached by a SHA-256 over every file of /repo outside target/ and .git/.
"""
import fcntl
import hashlib
import json
import os
import shutil
import subprocess
import sys
import time

VERIF = os.path.dirname(os.path.dirname(os.path.abspath(__file__)))
REPO = os.environ.get('VERIF_REPO', '/repo')
CACHE = os.path.join(VERIF, '.cache')
DRIVER = os.path.join(VERIF, 'driver', 'target', 'release', 'axl-facts')
ETHNUM = os.path.join(VERIF, 'vendor', 'ethnum-1.5.0-nightlyfix')
TARGET = os.path.join(CACHE, 'nightly-target')

# contract packages analysed, each built alone with its default (deployed) feature set
PACKAGES = [
    'axelar-gateway',
    'axelar-gas-service',
    'axelar-operators',
    'interchain-token',
    'interchain-token-service',
    'upgrader',
    'example',
]
WS_CRATES = [
    'axelar_gateway', 'axelar_gas_service', 'axelar_operators', 'interchain_token',
    'interchain_token_service', 'upgrader', 'example', 'axelar_soroban_std',
    'axelar_soroban_std_derive',
]


class InfraError(Exception):
    pass


def tree_hash(root=None):
    root = root or REPO
    h = hashlib.sha256()
    for dp, dns, fns in os.walk(root):
        rel = os.path.relpath(dp, root)
        dns[:] = sorted(d for d in dns if not (rel == '.' and d in ('target', '.git')) and d != 'test_snapshots')
        for fn in sorted(fns):
            p = os.path.join(dp, fn)
            if os.path.islink(p) or not os.path.isfile(p):
                continue
            h.update(os.path.relpath(p, root).encode())
            h.update(b'\0')
            with open(p, 'rb') as f:
                h.update(f.read())
            h.update(b'\0')
    # the driver itself is part of the key: a rebuilt driver re-extracts
    try:
        with open(os.path.join(VERIF, 'driver', 'src', 'main.rs'), 'rb') as f:
            h.update(f.read())
    except OSError:
        pass
    return h.hexdigest()[:32]


def nightly_sysroot():
    return subprocess.check_output(['rustc', '+nightly', '--print', 'sysroot'], text=True).strip()


def ensure_driver():
    if not os.path.exists(DRIVER):
        env = dict(os.environ, CARGO_NET_OFFLINE='true')
        r = subprocess.run(['cargo', '+nightly', 'build', '--release', '--offline'],
                           cwd=os.path.join(VERIF, 'driver'), env=env,
                           stdout=subprocess.PIPE, stderr=subprocess.STDOUT, text=True)
        if r.returncode != 0 or not os.path.exists(DRIVER):
            raise InfraError('driver build failed:\n' + r.stdout[-3000:])


def _copy_tree(dst):
    if os.path.exists(dst):
        shutil.rmtree(dst)
    os.makedirs(dst)
    r = subprocess.run(['rsync', '-a', '--delete', '--exclude', '/target', '--exclude', '/.git', '--exclude', 'test_snapshots',
                        REPO.rstrip('/') + '/', dst + '/'],
                       stdout=subprocess.PIPE, stderr=subprocess.STDOUT, text=True)
    if r.returncode != 0:
        raise InfraError('rsync failed: ' + r.stdout)


def _drop_ws_fingerprints():
    fp = os.path.join(TARGET, 'debug', '.fingerprint')
    if not os.path.isdir(fp):
        return
    names = [c.replace('_', '-') for c in WS_CRATES]
    for d in os.listdir(fp):
        base = d.rsplit('-', 1)[0]
        if base in names:
            shutil.rmtree(os.path.join(fp, d), ignore_errors=True)


def extract(features=None, packages=None, force=False, quiet=True):
    """Returns (facts_dir, info). features: None (deployed config) or 'testutils'."""
    packages = packages or PACKAGES
    th = tree_hash()
    tag = th + ('' if not features else '-' + features)
    out = os.path.join(CACHE, 'facts', tag)
    want = [os.path.join(out, p.replace('-', '_') + '.json') for p in packages]
    info = {'tree_hash': th, 'cached': False, 'wall_s': 0.0, 'features': features or 'default'}
    os.makedirs(CACHE, exist_ok=True)
    lockf = open(os.path.join(CACHE, 'extract.lock'), 'w')
    fcntl.flock(lockf, fcntl.LOCK_EX)
    try:
        if not force and not os.environ.get('VERIF_NOCACHE') and all(os.path.exists(w) for w in want):
            info['cached'] = True
            os.utime(out, None)
            return out, info
        t0 = time.time()
        ensure_driver()
        scratch = os.path.join(CACHE, 'scratch', 'repo')
        _copy_tree(scratch)
        _drop_ws_fingerprints()
        tmp_out = out + '.tmp'
        shutil.rmtree(tmp_out, ignore_errors=True)
        os.makedirs(tmp_out)
        sysroot = nightly_sysroot()
        env = dict(os.environ)
        env.update({
            'CARGO_NET_OFFLINE': 'true',
            'LD_LIBRARY_PATH': os.path.join(sysroot, 'lib') + ':' + env.get('LD_LIBRARY_PATH', ''),
            'RUSTFLAGS': '-Zmir-opt-level=0 -Zalways-encode-mir -Awarnings',
            'RUSTC_WORKSPACE_WRAPPER': DRIVER,
            'CARGO_TARGET_DIR': TARGET,
            'AXL_OUT': tmp_out,
            'AXL_WS': ','.join(WS_CRATES),
        })
        env.pop('RUSTC_WRAPPER', None)
        logs = []
        for pkg in packages:
            env['AXL_PKG'] = pkg.replace('-', '_')
            cmd = ['cargo', '+nightly', 'check', '-p', pkg, '--lib', '--offline',
                   '--config', 'patch.crates-io.ethnum.path="%s"' % ETHNUM]
            if features:
                cmd += ['--features', features]
            r = subprocess.run(cmd, cwd=scratch, env=env, stdout=subprocess.PIPE,
                               stderr=subprocess.STDOUT, text=True)
            logs.append(r.stdout)
            fpath = os.path.join(tmp_out, env['AXL_PKG'] + '.json')
            if r.returncode != 0:
                raise InfraError('nightly cargo check failed for %s (tree does not compile?)\n%s'
                                 % (pkg, r.stdout[-4000:]))
            if not os.path.exists(fpath):
                raise InfraError('fact file missing for %s (driver skipped?)\n%s' % (pkg, r.stdout[-2000:]))
        shutil.rmtree(out, ignore_errors=True)
        os.rename(tmp_out, out)
        shutil.rmtree(os.path.join(CACHE, 'scratch'), ignore_errors=True)
        # keep the fact cache small: newest 6 trees
        fdir = os.path.join(CACHE, 'facts')
        ents = sorted((os.path.getmtime(os.path.join(fdir, d)), d) for d in os.listdir(fdir))
        for _, d in ents[:-6]:
            shutil.rmtree(os.path.join(fdir, d), ignore_errors=True)
        info['wall_s'] = round(time.time() - t0, 2)
        return out, info
    finally:
        fcntl.flock(lockf, fcntl.LOCK_UN)
        lockf.close()


def release_profile():
    """[profile.release] overflow-checks from /repo/Cargo.toml (plain +/- are relied on to trap)."""
    txt = open(os.path.join(REPO, 'Cargo.toml')).read()
    sect = None
    val = None
    for line in txt.splitlines():
        s = line.strip()
        if s.startswith('['):
            sect = s
        elif sect == '[profile.release]' and s.replace(' ', '').startswith('overflow-checks='):
            val = s.split('=', 1)[1].strip()
    return {'overflow_checks': val == 'true', 'raw': val}


if __name__ == '__main__':
    try:
        d, info = extract(force='--force' in sys.argv)
        print(d, json.dumps(info))
    except InfraError as e:
        print('INFRA-ERROR', e)
        sys.exit(2)
