"""Term normalisation: canonical forms for the SDK idioms the rules talk about.

  sget/shas(class, key)   storage reads
  keccak(x), xdr(x)       digest building
  concat(a, b, ...)       Bytes built by extend_from_array / append
  elem(src)               loop element of an iteration over src
  vecmap(src, f)          Vec built by pushing f for each element
  sym("name")             Symbol
  self                    Env::current_contract_address
  now / seq               ledger timestamp / sequence
"""
import re
import sys

sys.setrecursionlimit(20000)

_memo = {}


def cname(callee):
    return callee


def norm(t):
    if not isinstance(t, tuple):
        return t
    k = t
    r = _memo.get(k)
    if r is not None:
        return r
    r = _norm(t)
    _memo[k] = r
    return r


def _is_next(callee):
    return ' as core::iter::Iterator>::next' in callee or re.search(r'<impl core::iter::Iterator for core::ops::Range<\w+>>::next$', callee) is not None


def _is_counter(t, depth=0):
    """a loop counter: starts at 0 and is advanced by exactly 1 (checked) on every way round the loop"""
    if depth > 6 or not isinstance(t, tuple):
        return False
    al = t[1] if t[0] == 'phi' else (t,)
    zero = step = False
    for a in al:
        if a[0] == 'const' and re.match(r'^0_(u32|u64|usize|i32|i64)$', a[1]):
            zero = True
            continue
        if a[0] == 'mu' or (a[0] == 'field' and a[1] == '0' and a[2][0] == 'mu'):
            continue          # the loop-carried value itself (of the counter, or of its checked-add pair)
        if a[0] == 'field' and a[1] == '0' and a[2][0] == 'bin' and a[2][1] == 'AddWithOverflow' and a[2][3][0] == 'const' \
                and re.match(r'^1_(u32|u64|usize|i32|i64)$', a[2][3][1]) and (a[2][2][0] == 'mu' or _is_counter(a[2][2], depth + 1)):
            step = True
            continue
        return False
    return zero and (step or depth > 0)


def _len_of(t):
    """X if t is `X.len()` of a soroban Vec / slice"""
    if t[0] == 'call' and (re.search(r'soroban_sdk::Vec::<.*>::len$', t[1]) or t[1].endswith(']>::len')) and t[2]:
        return t[2][0]
    return None


def _strip_iter(t):
    """collection behind an iterator-constructor term"""
    while True:
        if t[0] == 'call' and (re.search(r'soroban_sdk::Vec::<.*>::iter$', t[1]) or t[1].endswith('::into_iter')
                               or t[1].endswith('::iter')):
            t = t[2][0]
            continue
        if t[0] == 'struct' and t[1].endswith('ops::Range'):
            # `0..X.len()`: the indices of X, in order
            f = dict(t[2])
            x = _len_of(f.get('end', ('u',)))
            if x is not None and f.get('start', ('u',))[0] == 'const' and re.match(r'^0_', f['start'][1]):
                return ('indices', x)
        return t


def _loop_init(t, mutname_pred):
    """PHI{init | MUT[f](μ..)} -> (init, [mut terms]) if the shape matches, else None"""
    if t[0] == 'mut' and mutname_pred(t[1]):
        # straight-line single update (no loop): old is the init
        inner = _loop_init(t[2], mutname_pred)
        if inner:
            return (inner[0], inner[1] + [t])
        return (t[2], [t])
    if t[0] != 'phi':
        return None
    inits = []
    muts = []
    for a in t[1]:
        if a[0] == 'mut' and mutname_pred(a[1]):
            muts.append(a)
        elif a[0] == 'mu':
            continue
        else:
            inits.append(a)
    if len(inits) == 1 and muts:
        return (inits[0], muts)
    return None


def _strict(t):
    """bottom propagation: a value built from an impossible (never) part does not exist"""
    h = t[0]
    if h == 'call':
        parts = t[2]
    elif h == 'struct':
        parts = [x for _, x in t[2]]
    elif h == 'variant':
        parts = t[3]
    elif h in ('tuple', 'array', 'concat'):
        parts = t[1]
    elif h in ('keccak', 'xdr', 'elem', 'next', 'vecmap', 'sha256'):
        parts = [t[1]]
    elif h == 'bin':
        parts = [t[2], t[3]]
    elif h == 'un':
        parts = [t[2]]
    elif h == 'cast':
        parts = [t[3]]
    elif h == 'mut':
        parts = [t[2]] + list(t[3])
    else:
        return t
    for x in parts:
        if isinstance(x, tuple) and x and x[0] == 'never':
            return ('never',)
    return t


def _norm(t):
    return _strict(_norm0(t))


def _norm0(t):
    h = t[0]
    if h in ('param', 'const', 'fn', 'mu', 'undef', 'never', 'opaque', 'deep', 'self', 'sym', 'now', 'seq'):
        if h == 'const':
            return _norm_const(t)
        return t
    if h == 'call':
        callee = t[1]
        args = tuple(norm(a) for a in t[2])
        m = re.search(r'soroban_sdk::storage::(Instance|Persistent|Temporary)::(get|has)::<', callee)
        if m:
            return ('sget' if m.group(2) == 'get' else 'shas', m.group(1).lower(), args[1], t[3] if len(t) > 3 else None)
        if callee.endswith('crypto::Crypto::keccak256'):
            return ('keccak', args[1])
        if callee.endswith('crypto::Crypto::sha256'):
            return ('sha256', args[1])
        if ' as soroban_sdk::xdr::ToXdr>::to_xdr' in callee:
            return ('xdr', args[0])
        if callee.endswith('soroban_sdk::Env::current_contract_address'):
            return ('self',)
        if callee.endswith('soroban_sdk::Symbol::new'):
            a = args[1]
            if a[0] == 'const':
                return ('sym', a[1].strip('"'))
            return ('sym?', a)
        if callee.endswith('ledger::Ledger::timestamp'):
            return ('now',)
        if callee.endswith('ledger::Ledger::sequence'):
            return ('seq',)
        if callee.endswith('soroban_sdk::String::from_str') or callee.endswith('soroban_sdk::Address::from_string'):
            return ('lit', args[-1]) if args[-1][0] in ('const', 'lit') else ('call', callee, args) + tuple(t[3:])
        m = re.search(r'soroban_sdk::Vec::<.*>::(get|get_unchecked|try_get|try_get_unchecked)$', callee)
        if m and len(args) == 2 and (args[1] == ('elem', ('indices', args[0])) or _is_counter(args[1])):
            # element at a loop index running over `0..X.len()`: the loop element of X (always present)
            el = ('elem', args[0])
            if m.group(1) == 'get':
                return ('variant', 'core::option::Option', 'Some', (el,))
            if m.group(1) == 'get_unchecked':
                return el
        if _is_next(callee):
            li = _loop_init(args[0], _is_next)
            if li:
                return ('next', _strip_iter(li[0]))
            return ('next', _strip_iter(args[0]))
        return ('call', callee, args) + tuple(t[3:])
    if h == 'payload':
        base = norm(t[3])
        if base[0] == 'never':
            return base
        if t[1] == 'Some' and base[0] == 'next':
            return ('elem', base[1])
        if base[0] == 'variant':
            if base[2] == t[1] and t[2] < len(base[3]):
                return base[3][t[2]]
        if base[0] == 'phi':
            # payload of a phi of variants: keep only matching alternatives
            alts = []
            for a in base[1]:
                if a[0] == 'variant':
                    if a[2] == t[1] and t[2] < len(a[3]):
                        alts.append(a[3][t[2]])
                else:
                    alts.append(norm(('payload', t[1], t[2], a)))
            alts = _uniq(alts)
            if len(alts) == 1:
                return alts[0]
            if alts:
                return ('phi', tuple(alts))
        return ('payload', t[1], t[2], base)
    if h == 'mut':
        callee = t[1]
        old = norm(t[2])
        args = tuple(norm(a) for a in t[3])
        if 'soroban_sdk::Bytes::extend_from_array' in callee or callee.endswith('soroban_sdk::Bytes::append') \
                or 'soroban_sdk::Bytes::extend_from_slice' in callee:
            parts = list(old[1]) if old[0] == 'concat' else [old]
            parts.append(args[0] if args else ('undef',))
            return ('concat', tuple(parts))
        if re.search(r'core::slice::<impl \[.*\]>::(copy_from_slice|clone_from_slice)$', callee) and len(t) > 4 and len(t[4]) == 1 and args:
            # `buf[a..b].copy_from_slice(src)` on a fixed-size buffer: bytes a..b are src (the call traps unless src is b-a long);
            # a buffer whose writes tile it completely is the concatenation of the sources
            rng = _const_range(norm(t[4][0]))
            buf = (int(str(old[2]).split('_')[0]), []) if old[0] == 'repeat' and re.match(r'^\d+(_usize)?$', str(old[2])) else \
                (old[1], list(old[2])) if old[0] == 'bytesbuf' else None
            if rng and buf:
                n, segs = buf
                lo, hi = rng
                hi = n if hi is None else hi
                if 0 <= lo < hi <= n:
                    segs = [s_ for s_ in segs if not (lo <= s_[0] and s_[1] <= hi)]
                    if all(s_[1] <= lo or s_[0] >= hi for s_ in segs):
                        segs = sorted(segs + [(lo, hi, args[0])], key=lambda s_: s_[0])
                        pos = 0
                        for s_ in segs:
                            if s_[0] != pos:
                                break
                            pos = s_[1]
                        else:
                            if pos == n:
                                return ('concat', tuple(s_[2] for s_ in segs))
                        return ('bytesbuf', n, tuple(segs))
        return ('mut', callee, old, args) + tuple(t[4:])
    if h == 'phi':
        alts = _uniq([norm(a) for a in t[1]])
        # Vec built by push_back in a loop
        pb = lambda c: re.search(r'soroban_sdk::Vec::<.*>::push_back$', c) is not None
        li = _loop_init(('phi', tuple(alts)), pb)
        if li and li[0][0] == 'call' and re.search(r'soroban_sdk::Vec::<.*>::new$', li[0][1]):
            pushed = _uniq([m[3][0] for m in li[1] if m[3]])
            if len(pushed) == 1:
                return ('vecmap', pushed[0])
        flat = []
        for a in alts:
            if a[0] == 'phi':
                flat.extend(a[1])
            else:
                flat.append(a)
        alts = _uniq([a for a in flat if a[0] != 'never'])
        if not alts:
            return ('never',)
        if len(alts) == 1:
            return alts[0]
        return ('phi', tuple(alts))
    if h == 'struct':
        return ('struct', _adt_name(t[1]), tuple((n, norm(x)) for n, x in t[2]))
    if h == 'variant':
        return ('variant', _adt_name(t[1]), t[2], tuple(norm(x) for x in t[3]))
    if h in ('tuple', 'array'):
        return (h, tuple(norm(x) for x in t[1]))
    if h == 'closure':
        return ('closure', t[1], tuple(norm(x) for x in t[2]))
    if h == 'bin':
        return ('bin', t[1], norm(t[2]), norm(t[3]))
    if h == 'un':
        return ('un', t[1], norm(t[2]))
    if h == 'cast':
        a = norm(t[3])
        # pointer/unsize coercions are transparent
        if 'PointerCoercion' in t[2] or t[2] in ('Transmute',) and False:
            return a
        return ('cast', t[1], t[2], a)
    if h == 'field':
        base = norm(t[2])
        if base[0] == 'never':
            return base
        if base[0] == 'struct':
            for n, x in base[2]:
                if n == t[1]:
                    return x
        if base[0] == 'tuple' and t[1].isdigit() and int(t[1]) < len(base[1]):
            return base[1][int(t[1])]
        if base[0] == 'bin' and base[1] in ('AddWithOverflow', 'SubWithOverflow', 'MulWithOverflow') and t[1] in ('0', '1') \
                and base[2][0] == 'const' and base[3][0] == 'const':
            # checked arithmetic on two literal / named constants (`2 * HASH_LEN`): the compiler's own overflow check is decided
            f = _fold_checked(base[1], base[2][1], base[3][1])
            if f is not None:
                return f[int(t[1])]
        if base[0] == 'phi':
            return norm(('phi', tuple(('field', t[1], a) for a in base[1])))
        return ('field', t[1], base)
    if h == 'as':
        b = norm(t[2])
        if b[0] == 'never':
            return b
        return ('as', t[1], b)
    if h == 'discr':
        return ('discr', norm(t[1])) + tuple(t[2:])
    if h == 'upd':
        return ('upd', norm(t[1]), t[2], norm(t[3]))
    if h == 'repeat':
        return ('repeat', norm(t[1]), t[2])
    if h == 'index':
        return ('index', norm(t[1]), t[2])
    if h == 'leafarg':
        base = norm(t[1])
        # element handed to a closure by an iterator adaptor: for_each(iter, |x| ..), map, filter, any, all, ...
        if base[0] == 'call' and re.search(r' as core::iter::Iterator>::(for_each|map|filter|any|all|try_for_each|inspect|find|position|filter_map)::<', base[1]) and t[2] == 2:
            return ('elem', _strip_iter(base[2][0]))
        return ('leafarg', base, t[2])
    return t


def _small_symbol(n):
    """decode a soroban SymbolSmall Val (tag 14 in the low byte, 6 bits per character)"""
    if n & 0xff != 14:
        return None
    body = n >> 8
    chars = []
    while body:
        c = body & 0x3f
        body >>= 6
        if c == 1:
            chars.append('_')
        elif 2 <= c <= 11:
            chars.append(chr(ord('0') + c - 2))
        elif 12 <= c <= 37:
            chars.append(chr(ord('A') + c - 12))
        elif 38 <= c <= 63:
            chars.append(chr(ord('a') + c - 38))
        else:
            return None
    return ''.join(reversed(chars))


_LIB = ('core::', 'std::', 'alloc::', 'soroban_sdk::', 'alloy_', 'ruint::')


def _adt_name(n):
    """workspace types are named by their last path segment: which module (or workspace crate) a struct / enum lives in is not
    behaviour (a type moved to another file is the same type); library types keep their full path"""
    if not isinstance(n, str) or '<' in n or n.startswith(_LIB) or '::' not in n:
        return n
    return n.rsplit('::', 1)[1]


def _norm_const(t):
    v = t[1]
    if v.startswith('const '):
        v = v[6:]
    m = re.search(r'symbol::Symbol\(soroban_sdk::Val\((\d+)_u64\)\)', v)
    if m and v.startswith('soroban_sdk::Symbol'):
        s = _small_symbol(int(m.group(1)))
        if s is not None:
            return ('sym', s)
    # a constant whose value is a unit variant of an enum (`const KEY: DataKey = DataKey::Migrating;`, or a promoted `&DataKey::X`)
    # is the same value as the variant built in place
    m = re.match(r'^((?:\w+::)+[A-Z]\w*)::([A-Z]\w*)$', v)
    if m:
        return ('variant', _adt_name(m.group(1)), m.group(2), ())
    m = re.match(r'^((?:\w+::)*Option)::<.*>::None$', v)
    if m:
        return ('variant', m.group(1), 'None', ())
    # a constant struct with literal fields (`const NO_ALLOWANCE: AllowanceValue = AllowanceValue { amount: 0, .. }`) is that struct
    m = re.match(r'^((?:\w+::)*[A-Z]\w*) \{+ (.*?) \}+$', v)
    if m and '{' not in m.group(2) and '(' not in m.group(2):
        fs = []
        for part in m.group(2).split(', '):
            if ': ' not in part:
                fs = None
                break
            n, x = part.split(': ', 1)
            fs.append((n.strip(), ('const', x.strip())))
        if fs:
            return ('struct', _adt_name(m.group(1)), tuple(fs))
    return ('const', v) + tuple(t[2:])


def _uniq(xs):
    out = []
    for x in xs:
        if x not in out:
            out.append(x)
    return out


# ---------------------------------------------------------------------------------------------
# helpers used by rules
# ---------------------------------------------------------------------------------------------

def core(t):
    """value behind unwrap/expect/?: strips Some/Ok/Continue payload wrappers"""
    while isinstance(t, tuple) and t[0] == 'payload' and t[1] in ('Some', 'Ok', 'Continue') and t[2] == 0:
        t = t[3]
    return t


def subterms(t, _seen=None):
    """pre-order iteration over all subterms (with sharing-aware de-duplication)"""
    if _seen is None:
        _seen = set()
    stack = [t]
    while stack:
        x = stack.pop()
        if not isinstance(x, tuple):
            continue
        if id(x) in _seen:
            continue
        _seen.add(id(x))
        if x and isinstance(x[0], str):
            yield x
        for c in x:
            if isinstance(c, tuple):
                stack.append(c)


def contains(t, sub):
    for x in subterms(t):
        if x == sub:
            return True
    return False


def find(t, pred):
    for x in subterms(t):
        if pred(x):
            return x
    return None


def is_param(t, name=None):
    return isinstance(t, tuple) and t[0] == 'param' and (name is None or t[1] == name)


def variant_name(t):
    if isinstance(t, tuple) and t[0] == 'variant':
        return t[2]
    return None


class _Args(tuple):
    """arguments of a key variant; a missing position reads as a term that equals nothing (a rule that expects `Key(x)` and meets a
    unit `Key` reports its own obligation instead of failing inside the engine)"""
    def __getitem__(self, i):
        if isinstance(i, int) and not (-len(self) <= i < len(self)):
            return ('missing-key-argument', i)
        return tuple.__getitem__(self, i)


def key_variant(key):
    """storage key term -> (variant name, args) for DataKey-like enum keys"""
    if isinstance(key, tuple) and key[0] == 'variant':
        return key[2], _Args(key[3])
    if isinstance(key, tuple) and key[0] == 'phi':
        names = set(key_variant(a)[0] for a in key[1])
        if len(names) == 1:
            return key_variant(key[1][0])
    return None, _Args(())


def const_value(t):
    if isinstance(t, tuple) and t[0] == 'const':
        return t[1]
    return None


def _const_range(r):
    """(lo, hi) of a `a..b` / `..b` / `a..` range term with literal bounds (hi None = to the end)"""
    if r[0] != 'struct':
        return None
    f = dict(r[2])
    name = r[1].rsplit('::', 1)[-1]
    lo = const_int(f['start']) if 'start' in f else 0
    hi = const_int(f['end']) if 'end' in f else None
    if name not in ('Range', 'RangeTo', 'RangeFrom') or lo is None or ('end' in f and hi is None):
        return None
    return (lo, hi)


def _fold_checked(op, a, b):
    ma = re.match(r'^(-?\d+)_([iu])(\d+|size)$', a)
    mb = re.match(r'^(-?\d+)_([iu])(\d+|size)$', b)
    if not ma or not mb or ma.group(2) != mb.group(2) or ma.group(3) != mb.group(3):
        return None
    bits = 32 if ma.group(3) == 'size' else int(ma.group(3))      # usize: the narrower of host / wasm32
    x, y = int(ma.group(1)), int(mb.group(1))
    r = x + y if op == 'AddWithOverflow' else x - y if op == 'SubWithOverflow' else x * y
    lo, hi = (0, 2 ** bits - 1) if ma.group(2) == 'u' else (-2 ** (bits - 1), 2 ** (bits - 1) - 1)
    if not (lo <= r <= hi):
        return None
    return (('const', '%d_%s%s' % (r, ma.group(2), ma.group(3))), ('const', 'false'))


def const_int(t):
    v = const_value(t)
    if v is None:
        return None
    m = re.match(r'^(-?\d+)(_[iu]\d+|_usize|_isize)?$', v)
    if m:
        return int(m.group(1))
    return None
