"""Thorough tier: validation of the checker itself (never changes the verdict for the real tree).

(a) fact-level mutation analysis — always applicable, nothing is compiled: single MIR-level edits are applied to
    the loaded facts of the crates the property depends on (an authorisation call becomes a no-op, a branch
    condition is inverted, a storage write / publish / cross-contract call becomes a no-op, two same-typed call arguments are swapped, a
    strict comparison becomes non-strict (and vice versa), a compared constant is incremented, an overflow check is dropped), the property's rules are
    re-run on the edited program and it is recorded whether a new violation appears ("killed").  This shows
    which rule instances are live and that the rules are not vacuous.
(b) source mutants (selftest/mutants.py) — each applied to a private scratch copy of /repo (never to /repo), the
    copy is re-extracted and the quick check must report a violation (or stay silent for the behaviour-preserving
    edits marked `equiv`).
Misses are printed as SELFTEST-MISS lines and recorded in the evidence.
"""
import copy
import os
import re
import shutil
import subprocess
import sys
import tempfile
import time

import prog
from report import Report

VERIF = os.path.dirname(os.path.dirname(os.path.abspath(__file__)))

PROP_CRATES = {
    'C01': ['axelar_gateway'], 'C02': ['axelar_gateway'], 'C03': ['axelar_gateway'], 'C08': ['axelar_gateway'], 'C09': ['axelar_gateway'],
    'C13': ['axelar_gateway'], 'C04': ['interchain_token_service'], 'C05': ['interchain_token_service'], 'C10': ['interchain_token_service'],
    'C11': ['interchain_token_service', 'interchain_token'], 'C18': ['interchain_token_service'], 'C12': ['interchain_token'],
    'C14': ['axelar_gas_service'], 'C15': ['upgrader', 'axelar_gateway', 'axelar_operators'], 'C16': ['example', 'interchain_token_service'],
    'C17': ['axelar_operators'], 'C06': ['axelar_gateway', 'axelar_gas_service', 'axelar_operators', 'interchain_token', 'interchain_token_service'],
    'C07': ['axelar_gateway', 'axelar_gas_service', 'axelar_operators', 'interchain_token', 'interchain_token_service', 'example'],
}

EFFECT_CALL = re.compile(r'storage::(Instance|Persistent|Temporary)::(set|remove|update)::<|events::Events::publish::<|soroban_token_sdk::event::Events::|'
                         r'Env::invoke_contract::<|update_current_contract_wasm|DeployerWithAddress::deploy_v2')


def ws_body(inst):
    return inst['crate'] not in ('core', 'alloc', 'std') and 'testutils' not in inst['def']


def candidates(crate):
    """(kind, inst key, bb) single-edit mutation sites in workspace bodies of the crate"""
    out = []
    for key, inst in crate.inst.items():
        if not ws_body(inst):
            continue
        if re.search(r'::__\w+::invoke_raw$', key) or '::__constructor' in key and False:
            continue
        for bi, b in enumerate(inst['blocks']):
            if b['cleanup']:
                continue
            t = b['term']
            if t['t'] == 'call' and t['to'] >= 0:
                if t['callee'].endswith('Address::require_auth'):
                    out.append(('drop-auth', key, bi))
                elif EFFECT_CALL.search(t['callee']) or (t.get('self_adt', '').endswith('Client') and not t['callee'].endswith('::new')):
                    out.append(('drop-effect', key, bi))
                elif 'crypto::Crypto::ed25519_verify' in t['callee']:
                    out.append(('drop-verify', key, bi))
            elif t['t'] == 'switch' and t.get('dty') == 'bool' and len(t['arms']) == 1:
                out.append(('negate-branch', key, bi))
            elif t['t'] == 'assert':
                out.append(('drop-overflow-check', key, bi))
            if t['t'] == 'call' and t['to'] >= 0 and len(t['args']) >= 2:
                tys = t.get('argtys', [])
                for i in range(len(t['args'])):
                    for j in range(i + 1, len(t['args'])):
                        if i < len(tys) and j < len(tys) and tys[i] == tys[j] and tys[i] not in ('&soroban_sdk::Env', 'soroban_sdk::Env') \
                                and t['args'][i]['k'] in ('copy', 'move') and t['args'][j]['k'] in ('copy', 'move'):
                            out.append(('swap-args:%d:%d' % (i, j), key, bi))
            if t['t'] == 'call' and t['to'] >= 0 and re.search(r'core::num::<impl [iu]\d+>::(checked|wrapping|saturating)_(add|sub)$', t['callee']) and len(t['args']) == 2:
                for ai in (0, 1):
                    if t['args'][ai]['k'] in ('copy', 'move'):
                        out.append(('operand-zero:T:%d' % ai, key, bi))
            nassign = {}
            for b2 in inst['blocks']:
                for st2 in b2['st']:
                    if st2['s'] == 'assign' and not st2['pl'].get('p'):
                        nassign[st2['pl']['l']] = nassign.get(st2['pl']['l'], 0) + 1
            named = set(pl_['l'] for pl_ in inst.get('names', {}).values() if not pl_.get('p'))
            for si, st in enumerate(b['st']):
                if st['s'] == 'assign' and st['rv']['r'] == 'bin' and st['rv']['op'] in ('Add', 'Sub', 'AddWithOverflow', 'SubWithOverflow'):
                    for side in ('a', 'b'):
                        if st['rv'][side]['k'] in ('copy', 'move'):
                            out.append(('operand-zero:%d:%s' % (si, side), key, bi))
                if st['s'] == 'assign' and not st['pl'].get('p') and st['pl']['l'] in named and nassign.get(st['pl']['l'], 0) >= 2 \
                        and inst['locals'][st['pl']['l']] != 'bool' and not (st['rv']['r'] == 'use' and st['rv']['o']['k'] == 'const'):
                    out.append(('drop-update:%d' % si, key, bi))
                if st['s'] == 'assign' and st['rv']['r'] == 'bin' and st['rv']['op'] in ('Gt', 'Ge', 'Lt', 'Le'):
                    out.append(('flip-strictness:%d' % si, key, bi))
                    if st['rv']['b']['k'] == 'const' and re.match(r'^(?:const )?-?\d+_[iu]', st['rv']['b']['v'].strip()):
                        out.append(('const-plus-one:%d' % si, key, bi))
    return out


def apply(crate, m):
    kind, key, bi = m
    inst = crate.inst[key]
    blk = inst['blocks'][bi]
    saved = copy.deepcopy(blk['term'])
    saved['__st'] = copy.deepcopy(blk['st'])
    t = blk['term']
    if kind in ('drop-auth', 'drop-effect', 'drop-verify', 'drop-overflow-check'):
        blk['term'] = {'t': 'goto', 'to': t['to']}
    elif kind.startswith('swap-args:'):
        _, i, j = kind.split(':')
        i, j = int(i), int(j)
        t2 = copy.deepcopy(t)
        t2['args'][i], t2['args'][j] = t2['args'][j], t2['args'][i]
        blk['term'] = t2
    elif kind.startswith('flip-strictness:'):
        si = int(kind.split(':')[1])
        blk['st'][si]['rv']['op'] = {'Gt': 'Ge', 'Ge': 'Gt', 'Lt': 'Le', 'Le': 'Lt'}[blk['st'][si]['rv']['op']]
    elif kind.startswith('const-plus-one:'):
        si = int(kind.split(':')[1])
        v = blk['st'][si]['rv']['b']['v']
        mm = re.match(r'^((?:const )?)(-?\d+)(_.*)$', v.strip())
        blk['st'][si]['rv']['b']['v'] = '%s%d%s' % (mm.group(1), int(mm.group(2)) + 1, mm.group(3))
    elif kind.startswith('operand-zero:T:'):
        ai = int(kind.split(':')[2])
        t2 = copy.deepcopy(t)
        ty = (t.get('argtys') or ['u128', 'u128'])[ai]
        t2['args'][ai] = {'k': 'const', 'ty': ty, 'v': '0_' + ty}
        blk['term'] = t2
    elif kind.startswith('operand-zero:'):
        _, si, side = kind.split(':')
        si = int(si)
        o = blk['st'][si]['rv'][side]
        ty = inst['locals'][o['pl']['l']] if not o['pl'].get('p') else 'u64'
        blk['st'][si]['rv'][side] = {'k': 'const', 'ty': ty, 'v': '0_' + ty}
    elif kind.startswith('drop-update:'):
        si = int(kind.split(':')[1])
        del blk['st'][si]
    elif kind == 'negate-branch':
        a, tgt = t['arms'][0]
        t2 = dict(t)
        t2['arms'] = [[a, t['otherwise']]]
        t2['otherwise'] = tgt
        blk['term'] = t2
    prog.prep_body(inst)
    return saved


def restore(crate, m, saved):
    kind, key, bi = m
    inst = crate.inst[key]
    st = saved.pop('__st', None)
    if st is not None:
        inst['blocks'][bi]['st'] = st
    inst['blocks'][bi]['term'] = saved
    prog.prep_body(inst)


def violations(P, mod):
    P._graphs = {}
    rep = Report(mod.__name__.split('.')[-1].upper(), 'thorough')
    try:
        mod.check(P, rep)
    except Exception as e:     # an edit can make a rule's anchor disappear altogether: counts as detected
        return {'EXC:' + type(e).__name__}
    return set(o['key'] for o in rep.obligations if not o['ok'])


def fact_mutation(P, rep, mod, budget_s=240):
    pid = rep.pid
    crates = [c for c in PROP_CRATES.get(pid, []) if c in P.crates]
    base = violations(P, mod)
    used = set((g.crate.name, ctx.key) for g in P._graphs.values() for ctx in g.ctxs)
    t0 = time.time()
    stats = {}
    survivors = []
    total = 0
    for cn in crates:
        c = P.crates[cn]
        for m in candidates(c):
            if time.time() - t0 > budget_s:
                break
            if (cn, m[1]) not in used:
                continue       # function not reachable from the entry points this property speaks about
            saved = apply(c, m)
            try:
                v = violations(P, mod)
            finally:
                restore(c, m, saved)
            killed = bool(v - base)
            k = stats.setdefault(m[0].split(':')[0], [0, 0])
            k[0] += 1
            k[1] += int(killed)
            total += 1
            if not killed:
                inst = c.inst[m[1]]
                at = saved.get('at') or inst.get('at') or ''
                survivors.append('%s %s %s' % (m[0].split(':')[0], inst['def'].split('::', 1)[-1][-60:], at.split('/')[-1]))
    P._graphs = {}
    return dict(total=total, per_operator={k: {'applied': a, 'killed': b} for k, (a, b) in stats.items()},
                survivors=survivors[:80], wall_s=round(time.time() - t0, 1),
                note='survivors are edits outside the scope of this property (other entry points, events this property does not '
                     'speak about, reads) or behaviour-preserving edits; they are listed, not counted as violations')


def source_mutants(pid):
    sys.path.insert(0, os.path.join(VERIF, 'selftest'))
    try:
        from mutants import MUTANTS
    except Exception as e:
        return dict(error=repr(e))
    sel = [m for m in MUTANTS if m['prop'] == pid]
    if not sel:
        return dict(total=0)
    repo = os.environ.get('VERIF_REPO', '/repo')
    sc = tempfile.mkdtemp(prefix='axl-selfval-', dir='/var/tmp')
    res = []
    try:
        subprocess.check_call(['rsync', '-a', '--exclude', '/target', '--exclude', '/.git', '--exclude', 'test_snapshots', repo.rstrip('/') + '/', sc + '/repo/'])
        os.makedirs(sc + '/ev')
        for m in sel:
            path = os.path.join(sc, 'repo', m['file'])
            bp = (os.path.join(VERIF, 'selftest', m['base'] + '.diff') if '/' in m['base'] else os.path.join(VERIF, 'selftest', 'refactors', m['base'] + '.diff')) if m.get('base') else None
            if bp:
                # the mutant breaks independently REFACTORED code: apply the behaviour-preserving refactoring first
                pr = subprocess.run(['patch', '-p1', '-s', '-i', bp], cwd=sc + '/repo', stdin=subprocess.DEVNULL, stdout=subprocess.PIPE, stderr=subprocess.STDOUT)
                if pr.returncode:
                    subprocess.run(['rsync', '-a', '--delete', '--exclude', '/target', '--exclude', '/.git', '--exclude', 'test_snapshots', repo.rstrip('/') + '/', sc + '/repo/'])
                    res.append(dict(id=m['id'], status='SKIP(base refactoring does not apply to this tree)'))
                    continue
            try:
                try:
                    src = open(path).read()
                except OSError:
                    res.append(dict(id=m['id'], status='SKIP(file missing)'))
                    continue
                if src.count(m['find']) != 1:
                    res.append(dict(id=m['id'], status='SKIP(patch does not apply to this tree)'))
                    continue
                new = src.replace(m['find'], m['replace'])
                for f2, r2 in m.get('also') or []:
                    new = new.replace(f2, r2)
                open(path, 'w').write(new)
                try:
                    env = dict(os.environ, VERIF_REPO=os.path.join(sc, 'repo'), VERIF_EVIDENCE_DIR=os.path.join(sc, 'ev'), VERIF_TIER='quick')
                    r = subprocess.run([os.path.join(VERIF, 'check'), pid, '--tier', 'quick'], cwd=VERIF, stdout=subprocess.PIPE,
                                       stderr=subprocess.STDOUT, text=True, env=env)
                finally:
                    open(path, 'w').write(src)
            finally:
                if bp:
                    subprocess.run(['patch', '-R', '-p1', '-s', '-i', bp], cwd=sc + '/repo', stdin=subprocess.DEVNULL, stdout=subprocess.PIPE, stderr=subprocess.STDOUT)
            rules = sorted(set(l.split('rule=')[1].split()[0] for l in r.stdout.splitlines() if l.strip().startswith('rule=')))
            if r.returncode == 2:
                st = 'INFRA(mutant does not compile on this tree)'
            elif m.get('equiv'):
                st = 'SILENT-AS-REQUIRED' if r.returncode == 0 else 'FALSE-ALARM(%s)' % ','.join(rules)
            else:
                st = 'CAUGHT(%s)' % ','.join(rules) if r.returncode == 1 else 'MISSED'
            res.append(dict(id=m['id'], status=st, equiv=bool(m.get('equiv'))))
    finally:
        shutil.rmtree(sc, ignore_errors=True)
    return dict(total=len(res), caught=sum(1 for x in res if x['status'].startswith('CAUGHT')),
                silent_equiv=sum(1 for x in res if x['status'] == 'SILENT-AS-REQUIRED'),
                problems=[x for x in res if x['status'].startswith(('MISSED', 'FALSE-ALARM'))], results=res)


# which properties speak about code under which directory (used to select the refactorings relevant to a property)
REL_DIRS = {
    'contracts/axelar-gateway/': ['C01', 'C02', 'C03', 'C04', 'C06', 'C07', 'C08', 'C09', 'C13', 'C15', 'C16'],
    'contracts/axelar-gas-service/': ['C05', 'C06', 'C07', 'C14', 'C15', 'C18'],
    'contracts/axelar-operators/': ['C06', 'C07', 'C15', 'C17'],
    'contracts/interchain-token/': ['C05', 'C06', 'C07', 'C11', 'C12', 'C15'],
    'contracts/interchain-token-service/': ['C04', 'C05', 'C06', 'C07', 'C10', 'C11', 'C15', 'C16', 'C18'],
    'contracts/upgrader/': ['C15'],
    'contracts/example/': ['C07', 'C16'],
    'packages/': ['C06', 'C15', 'C05', 'C12', 'C14'],
}


def refactor_corpus(pid):
    """the property's check on every independently written behaviour-preserving refactoring (selftest/refactors/*.diff) that touches
    code the property speaks about: it must stay silent on each"""
    import glob
    repo = os.environ.get('VERIF_REPO', '/repo')
    res = []
    sc = tempfile.mkdtemp(prefix='axl-selfval-rf-', dir='/var/tmp')
    try:
        subprocess.check_call(['rsync', '-a', '--exclude', '/target', '--exclude', '/.git', '--exclude', 'test_snapshots', repo.rstrip('/') + '/', sc + '/repo/'])
        os.makedirs(sc + '/ev')
        rel = []
        for patch in sorted(glob.glob(os.path.join(VERIF, 'selftest', 'refactors', '*.diff')) + glob.glob(os.path.join(VERIF, 'selftest', 'features', '*.diff'))):
            touched = [l.split()[1] for l in open(patch) if l.startswith('+++ ')]
            touched = [t.split('/', 1)[1] if '/' in t else t for t in touched]
            if any(t.startswith(d) and pid in ps for t in touched for d, ps in REL_DIRS.items()):
                rel.append(patch)
        # the whole corpus is what selftest/run_refactors.py / run_features.py run (all 18 checks on every diff); one thorough run takes a
        # deterministic, evenly spread sample of the diffs relevant to its property so that it stays within minutes
        cap = int(os.environ.get('VERIF_THOROUGH_MAX_DIFFS', '60'))
        n_rel = len(rel)
        if n_rel > cap:
            off = int(os.environ.get('VERIF_SEED', '1') or 1) % max(1, n_rel // cap)
            rel = [rel[(i * n_rel) // cap + off if (i * n_rel) // cap + off < n_rel else (i * n_rel) // cap] for i in range(cap)]
        for patch in rel:
            name = os.path.basename(patch)[:-5]
            pr = subprocess.run(['patch', '-p1', '-s', '-i', patch], cwd=sc + '/repo', stdin=subprocess.DEVNULL, stdout=subprocess.PIPE, stderr=subprocess.STDOUT)
            try:
                if pr.returncode:
                    res.append(dict(id=name, status='SKIP(does not apply to this tree)'))
                    continue
                env = dict(os.environ, VERIF_REPO=os.path.join(sc, 'repo'), VERIF_EVIDENCE_DIR=os.path.join(sc, 'ev'), VERIF_TIER='quick')
                r = subprocess.run([os.path.join(VERIF, 'check'), pid, '--tier', 'quick'], cwd=VERIF, stdout=subprocess.PIPE, stderr=subprocess.STDOUT, text=True, env=env)
                rules = sorted(set(l.split('rule=')[1].split()[0] for l in r.stdout.splitlines() if l.strip().startswith('rule=')))
                st = 'SILENT-AS-REQUIRED' if r.returncode == 0 else ('INFRA' if r.returncode == 2 else 'FALSE-ALARM(%s)' % ','.join(rules))
                res.append(dict(id=name, status=st))
            finally:
                subprocess.run(['rsync', '-a', '--delete', '--exclude', '/target', '--exclude', '/.git', '--exclude', 'test_snapshots', repo.rstrip('/') + '/', sc + '/repo/'])
    finally:
        shutil.rmtree(sc, ignore_errors=True)
    return dict(total=len(res), relevant_in_corpus=n_rel, silent=sum(1 for x in res if x['status'] == 'SILENT-AS-REQUIRED'),
                problems=[x for x in res if x['status'].startswith(('FALSE-ALARM', 'INFRA'))], results=res)


def run(P, rep, mod):
    if os.environ.get('VERIF_EVIDENCE_DIR'):
        return      # nested invocation from a self-validation run
    fm = fact_mutation(P, rep, mod)
    rep.selftest.append(dict(kind='fact-level mutation', **fm))
    killed = sum(v['killed'] for v in fm['per_operator'].values())
    print('SELFTEST fact-level mutation: %d edits, %d killed (%s)' % (
        fm['total'], killed, ', '.join('%s %d/%d' % (k, v['killed'], v['applied']) for k, v in sorted(fm['per_operator'].items()))))
    if fm['total'] and not killed:
        print('SELFTEST-MISS rule=%s no fact-level edit was detected' % rep.pid)
    sm = source_mutants(rep.pid)
    rep.selftest.append(dict(kind='source mutants on a scratch copy', **sm))
    if sm.get('total'):
        print('SELFTEST source mutants: %d applied, %d caught, %d behaviour-preserving edits silent' % (sm['total'], sm['caught'], sm['silent_equiv']))
        for x in sm['problems']:
            print('SELFTEST-MISS rule=%s mutant=%s %s' % (rep.pid, x['id'], x['status']))
    rc = refactor_corpus(rep.pid)
    rep.selftest.append(dict(kind='independent behaviour-preserving refactorings and property-preserving feature additions (must stay silent)', **rc))
    if rc.get('total'):
        print('SELFTEST refactorings: %d applied, %d silent' % (rc['total'], rc['silent']))
        for x in rc['problems']:
            print('SELFTEST-MISS rule=%s refactoring=%s %s' % (rep.pid, x['id'], x['status']))
