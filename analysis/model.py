"""Leaf model: classification of SDK / client leaf calls into sources, sinks and guards.

Every reachable leaf call of an entry graph becomes either an Effect (state-changing or
externally visible), an Auth fact, a source (terms only) or is listed as pure.  An SDK leaf that
is not classified makes the run fail closed (InfraError) so a new SDK API cannot be missed.
"""
import re
from norm import norm, core, key_variant, const_value
from fmt import fmt


class Unclassified(Exception):
    pass


class Eff:
    """kind: auth | sw | sr | supd | pub | tokev | xcall | invoke | deploy | wasm | meta"""
    __slots__ = ('kind', 'ctx', 'bb', 'node', 'callee', 'at', 'd')

    def __init__(self, kind, ctx, bb, callee, at, **d):
        self.kind = kind
        self.ctx = ctx
        self.bb = bb
        self.node = (ctx.id, bb)
        self.callee = callee
        self.at = at
        self.d = d

    def __getattr__(self, k):
        try:
            return self.d[k]
        except KeyError:
            raise AttributeError(k)

    def describe(self):
        k = self.kind
        d = self.d
        if k == 'auth':
            return 'require_auth(%s)' % fmt(d['subject'])
        if k in ('sw', 'sr', 'supd'):
            op = {'sw': 'set', 'sr': 'remove', 'supd': 'update'}[k]
            s = '%s.%s(%s' % (d['cls'], op, fmt(d['key']))
            if k == 'sw':
                s += ', ' + fmt(d['val'])
            return s + ')'
        if k == 'pub':
            return 'publish(%s, %s)' % (fmt(d['topics']), fmt(d['data']))
        if k == 'tokev':
            return 'token_event.%s(%s)' % (d['name'], ', '.join(fmt(a) for a in d['args']))
        if k == 'xcall':
            return '%s%s@%s.%s(%s)' % ('try ' if d['try_'] else '', d['client'], fmt(d['target']), d['method'],
                                        ', '.join(fmt(a) for a in d['args']))
        if k == 'invoke':
            return '%sinvoke_contract(%s, %s, %s)' % ('try_' if d['try_'] else '', fmt(d['target']), fmt(d['func']), fmt(d['args']))
        if k == 'deploy':
            return 'deploy_v2(at=%s, wasm=%s, args=%s)' % (fmt(d['address']), fmt(d['wasm']), fmt(d['args']))
        if k == 'wasm':
            return 'update_current_contract_wasm(%s)' % fmt(d['wasm'])
        if k == 'meta':
            return 'set_metadata(%s)' % fmt(d['val'])
        if k == 'sdk':
            return 'unmodelled SDK call %s(%s)' % (d['name'][:80], ', '.join(fmt(a) for a in d['args'])[:160])
        if k == 'sigverify':
            return 'ed25519_verify(pk=%s, msg=%s, sig=%s)' % (fmt(d['pk']), fmt(d['msg']), fmt(d['sig']))
        return k

    def short_at(self):
        return self.at.split('/repo/')[-1] if self.at else '?'


PURE_SDK = (
    'soroban_sdk::Env::storage', 'soroban_sdk::Env::crypto', 'soroban_sdk::Env::events', 'soroban_sdk::Env::ledger',
    'soroban_sdk::Env::deployer', 'soroban_sdk::Env::current_contract_address', 'soroban_sdk::Env::prng',
    'storage::Storage::instance', 'storage::Storage::persistent', 'storage::Storage::temporary',
    '::extend_ttl', 'crypto::Crypto::keccak256', 'crypto::Crypto::sha256', 'crypto::Hash::<32>::to_bytes',
    'ledger::Ledger::timestamp', 'ledger::Ledger::sequence', 'soroban_sdk::Symbol::new', 'soroban_sdk::String::',
    'soroban_sdk::Bytes::', 'soroban_sdk::BytesN::<', 'soroban_sdk::Vec::<', 'soroban_sdk::Address::to_val', 'soroban_sdk::Symbol::', 'soroban_sdk::Val::',
    'soroban_sdk::Env::logs', 'soroban_sdk::logs::', 'soroban_sdk::Address::to_string', 'soroban_sdk::Address::from_', 'soroban_sdk::Duration', 'soroban_sdk::Timepoint',
    'soroban_sdk::I256', 'soroban_sdk::U256', 'ledger::Ledger::', 'soroban_sdk::crypto::', 'soroban_sdk::iter::', 'soroban_sdk::vec::', 'soroban_sdk::map::', 'soroban_sdk::bytes::',
    'soroban_sdk::Address::from_string', 'soroban_sdk::Address::from_str', 'soroban_sdk::Map::<',
    'deploy::Deployer::with_address', 'deploy::Deployer::with_current_contract',
    ' as soroban_sdk::xdr::ToXdr>::to_xdr', ' as soroban_sdk::xdr::FromXdr>::from_xdr',
    ' as soroban_sdk::IntoVal<', ' as soroban_sdk::TryFromVal<', ' as soroban_sdk::TryIntoVal<', ' as soroban_sdk::TryFromValForContractFn<',
    ' as soroban_sdk::unwrap::UnwrapOptimized>', ' as core::clone::Clone>::clone', ' as core::cmp::PartialEq',
    ' as core::cmp::PartialOrd', ' as core::cmp::Ord', ' as core::iter::Iterator>::next', ' as core::iter::IntoIterator>::into_iter',
    ' as core::convert::AsRef<', ' as core::convert::From<', ' as core::convert::Into<', ' as core::fmt::Debug',
    'soroban_sdk::Env::panic_with_error', 'TokenClient::<\'_>::new', 'StellarAssetClient::<\'_>::new',
    'soroban_token_sdk::TokenUtils::new', 'soroban_token_sdk::TokenUtils::events', 'soroban_token_sdk::TokenUtils::metadata',
    'soroban_token_sdk::event::Events::new', 'metadata::Metadata::get_metadata',
    ' as core::default::Default>::default', 'soroban_sdk::Env::as_contract',
)

# client methods that are getters by interface contract (SEP-41 / the workspace's own interfaces)
READONLY_METHODS = {'name', 'symbol', 'decimals', 'balance', 'allowance', 'version', 'owner', 'operator', 'admin',
                    'authorized', 'is_minter', 'token_id', 'is_operator', 'is_message_approved', 'is_message_executed',
                    'epoch', 'gas_collector', 'gateway', 'gas_service', 'is_trusted_chain', 'interchain_token_service'}

TOKEN_EVENTS = ('approve', 'transfer', 'mint', 'burn', 'set_admin', 'clawback', 'set_authorized')


def client_target(t):
    """address a client value talks to"""
    t = core(t)
    if t[0] == 'struct':
        for n, x in t[2]:
            if n == 'address':
                return x
    if t[0] == 'call' and (t[1].endswith('Client::<\'_>::new') or t[1].endswith('Client::new')):
        return t[2][1]
    if t[0] == 'phi':
        return ('phi', tuple(client_target(a) for a in t[1]))
    return ('unknown-client', t)


def classify(g, ctx, bb, t):
    callee = t['callee']
    at = t.get('at')
    crate = t.get('crate', '')
    A = lambda: [norm(x) for x in g.arg_terms(ctx, bb)]
    if callee.endswith('soroban_sdk::Address::require_auth'):
        return Eff('auth', ctx, bb, callee, at, subject=A()[0], for_args=False)
    if callee.endswith('soroban_sdk::Address::require_auth_for_args'):
        return Eff('auth', ctx, bb, callee, at, subject=A()[0], for_args=True)
    m = re.search(r'soroban_sdk::storage::(Instance|Persistent|Temporary)::(set|remove|update|try_update)::<', callee)
    if m:
        a = A()
        cls = m.group(1).lower()
        op = m.group(2)
        if op == 'set':
            return Eff('sw', ctx, bb, callee, at, cls=cls, key=a[1], val=a[2])
        if op == 'remove':
            return Eff('sr', ctx, bb, callee, at, cls=cls, key=a[1])
        return Eff('supd', ctx, bb, callee, at, cls=cls, key=a[1], f=a[2])
    if re.search(r'soroban_sdk::storage::(Instance|Persistent|Temporary)::(get|has)::<', callee):
        return None
    if 'soroban_sdk::events::Events::publish::<' in callee:
        a = A()
        return Eff('pub', ctx, bb, callee, at, topics=a[1], data=a[2])
    m = re.search(r'soroban_token_sdk::event::Events::(\w+)$', callee)
    if m and m.group(1) in TOKEN_EVENTS:
        a = A()
        return Eff('tokev', ctx, bb, callee, at, name=m.group(1), args=a[1:])
    if callee.endswith('metadata::Metadata::set_metadata'):
        a = A()
        return Eff('meta', ctx, bb, callee, at, val=a[1])
    if callee.endswith('crypto::Crypto::ed25519_verify'):
        a = A()
        return Eff('sigverify', ctx, bb, callee, at, pk=a[1], msg=a[2], sig=a[3])
    m = re.search(r'soroban_sdk::Env::(try_)?invoke_contract::<', callee)
    if m:
        a = A()
        return Eff('invoke', ctx, bb, callee, at, try_=bool(m.group(1)), target=a[1], func=a[2], args=a[3])
    if 'DeployerWithAddress::deploy_v2' in callee or 'DeployerWithAddress::deploy::<' in callee \
            or 'DeployerWithAsset::deploy' in callee:
        a = A()
        dwa = core(a[0])
        address = salt = ('unknown',)
        if dwa[0] == 'call' and 'Deployer::with_address' in dwa[1]:
            address, salt = dwa[2][1], dwa[2][2]
        return Eff('deploy', ctx, bb, callee, at, address=address, salt=salt, wasm=a[1], args=a[2] if len(a) > 2 else ('tuple', ()))
    if 'Deployer::update_current_contract_wasm' in callee:
        a = A()
        return Eff('wasm', ctx, bb, callee, at, wasm=a[1])
    sa = t.get('self_adt', '')
    if sa.endswith('Client') and not callee.endswith('::new'):
        a = A()
        method = t['cdef'].rsplit('::', 1)[-1] if t.get('cdef') else callee.rsplit('::', 1)[-1]
        try_ = method.startswith('try_')
        mname = method[4:] if try_ else method
        return Eff('xcall', ctx, bb, callee, at, client=sa.split('::')[-1], method=mname,
                   try_=try_, target=client_target(a[0]), args=a[1:], readonly=mname in READONLY_METHODS)
    if t.get('ws_iter') and t.get('leaf') and not re.search(
            r' as core::iter::(IntoIterator>::into_iter|Iterator>::(map|filter|filter_map|zip|chain|enumerate|skip|take|rev|peekable|by_ref|inspect|take_while|'
            r'skip_while|map_while|scan|fuse|cloned|copied|step_by|flatten|flat_map|size_hint)\b)', callee):
        # library code instantiated with a hand-written workspace iterator may call that iterator's `next()` any number of times; a value
        # with a hand-written `Drop` is dropped; a hand-written (not derived) PartialEq / Clone / Debug .. impl is called: none of these is
        # followed (adaptor constructors do not pull) - opaque effect, fail closed
        return Eff('sdk', ctx, bb, callee, at, name='call back into unfollowed workspace code (hand-written Iterator / Drop / comparison impl)', args=A())
    if callee.startswith('INDIRECT ') or callee.startswith('UNRESOLVED '):
        # a call through a function pointer / trait object whose target is not known in this calling context (a known one is a
        # child context in the graph and never reaches here): anything may happen in it - opaque effect, fail closed
        return Eff('sdk', ctx, bb, callee, at, name='indirect call', args=A())
    # everything else must be provably irrelevant
    if crate in ('soroban_sdk', 'soroban_token_sdk', 'soroban_env_common', 'soroban_env_guest', 'soroban_env_host'):
        if any(p in callee for p in PURE_SDK):
            return None
        # an SDK call the leaf model does not know: kept as an opaque effect so that every rule that bounds the
        # effects of an entry point ("all effects are guarded by ...", "no other effect") sees it (fail closed,
        # but as a located finding rather than an aborted run)
        return Eff('sdk', ctx, bb, callee, at, name=callee.split('::', 1)[-1], args=A())
    return None


def effects(g):
    """all classified effect/auth nodes reachable in the entry graph (cached on g)"""
    if hasattr(g, '_effects'):
        return g._effects
    out = []
    for ctx, bb, t in g.call_nodes():
        e = classify(g, ctx, bb, t)
        if e is not None:
            out.append(e)
    out.sort(key=lambda e: e.node)
    g._effects = out
    return out


STATE_KINDS = ('sw', 'sr', 'supd', 'pub', 'tokev', 'xcall', 'invoke', 'deploy', 'wasm', 'meta', 'sdk')


def state_effects(g):
    """effects that change state or are externally visible (getter calls on other contracts excluded)"""
    return [e for e in effects(g) if e.kind in STATE_KINDS and not (e.kind == 'xcall' and e.readonly)]


def auths(g):
    return [e for e in effects(g) if e.kind == 'auth']
