"""Branch-edge facts: each SwitchInt edge of an entry graph carries a canonical condition.

Canonical conditions (all over normalised terms):
  ('cmp', op, a, b)       op in lt | le | eq | ne   (gt/ge are swapped)
  ('present', x) / ('absent', x)        Option-typed x is Some / None; storage `has` is folded in:
                                        x = ('skey', class, key) for has(), or the sget term itself
  ('ok', x) / ('err', x)                Result-typed x
  ('is', Variant, x) / ('isnot', Variant, x)   enum-typed x (workspace enums, ControlFlow)
  ('true', x) / ('false', x)            opaque boolean x
Assert terminators contribute the condition of their success edge under label 'ok'.
"""
import re
from norm import norm, core, const_int

SWAP = {'Gt': ('lt', True), 'Ge': ('le', True), 'Lt': ('lt', False), 'Le': ('le', False),
        'Eq': ('eq', False), 'Ne': ('ne', False)}
NEG = {'lt': 'le', 'le': 'lt', 'eq': 'ne', 'ne': 'eq'}


def negate(c):
    h = c[0]
    if h == 'cmp':
        op, a, b = c[1], c[2], c[3]
        if op in ('eq', 'ne'):
            return ('cmp', NEG[op], a, b)
        # not(a < b) == b <= a ; not(a <= b) == b < a
        return ('cmp', NEG[op], b, a)
    if h == 'const':
        return ('const', not c[1])
    pairs = {'present': 'absent', 'absent': 'present', 'ok': 'err', 'err': 'ok', 'true': 'false', 'false': 'true',
             'is': 'isnot', 'isnot': 'is'}
    return (pairs[h],) + tuple(c[1:])


def cond_true(D):
    """condition expressing that boolean term D is true"""
    h = D[0]
    if h == 'bin' and D[1] in SWAP:
        op, sw = SWAP[D[1]]
        a, b = (D[3], D[2]) if sw else (D[2], D[3])
        return ('cmp', op, a, b)
    if h == 'un' and D[1] == 'Not':
        return negate(cond_true(D[2]))
    if h == 'call':
        callee = D[1]
        m = re.search(r' as core::cmp::Partial(Eq|Ord)(<.*>)?>::(eq|ne|lt|le|gt|ge)$', callee)
        if not m:
            # `&A == &B` (core's forwarding impls for references compare the referents; references are transparent in terms)
            m = re.search(r'core::cmp::impls::<impl core::cmp::Partial(Eq|Ord)(<.*>)? for &(?:mut )?[^>]*(?:<.*>)?>::(eq|ne|lt|le|gt|ge)$', callee)
        if m:
            op = m.group(3)
            a, b = D[2][0], D[2][1]
            if op == 'gt':
                return ('cmp', 'lt', b, a)
            if op == 'ge':
                return ('cmp', 'le', b, a)
            return ('cmp', op, a, b)
        m = re.search(r'core::num::<impl (i\d+|isize)>::(is_negative|is_positive)$', callee)
        if m:
            zero = ('const', '0_' + m.group(1))
            return ('cmp', 'lt', D[2][0], zero) if m.group(2) == 'is_negative' else ('cmp', 'lt', zero, D[2][0])
    if h == 'shas':
        return ('present', ('skey', D[1], D[2]))
    if h == 'const':
        return ('const', D[1] == 'true')
    return ('true', D)


def discr_guard(crate, c):
    """`discriminant(x) == k` / `!= k` as a computed boolean (`opt.is_none()`, `res.is_ok()`, `matches!(x, V)` in library MIR) is the
    same test as the `match` edge on x"""
    if c[0] != 'cmp' or c[1] not in ('eq', 'ne'):
        return c
    for a, b in ((c[2], c[3]), (c[3], c[2])):
        if isinstance(a, tuple) and a[0] == 'discr' and isinstance(b, tuple) and b[0] == 'const':
            m = re.match(r'^(?:const )?(-?\d+)_(isize|usize|[iu]\d+)$', b[1].strip())
            if not m:
                continue
            k = int(m.group(1))
            base = cond_discr(crate, a[1], a[2] if len(a) > 2 else '', k, [k])
            if base[0] in ('discr_eq', 'isnot_any'):
                return c
            if c[1] == 'eq':
                return base
            if base[0] in ('present', 'absent', 'ok', 'err'):
                return negate(base)
            return ('isnot', base[1], base[2]) if base[0] == 'is' else c
    return c


def checked_sub_guard(c):
    """`a.checked_sub(b)` on UNSIGNED integers is Some exactly when b <= a: testing its presence is that comparison"""
    if c[0] in ('present', 'absent') and isinstance(c[1], tuple):
        x = core(c[1])
        if x[0] == 'call' and re.search(r'core::num::<impl (u8|u16|u32|u64|u128|usize)>::checked_sub$', x[1]) and len(x[2]) == 2:
            a, b = x[2]
            return ('cmp', 'le', b, a) if c[0] == 'present' else ('cmp', 'lt', a, b)
    return c


def counter_guard(c):
    """`i < X.len()` on a 0-based, step-1 loop counter i is the loop test "X has a next element" (index-driven loops)"""
    from norm import _is_counter, _len_of
    if c[0] == 'cmp' and c[1] == 'lt' and _is_counter(c[2]):
        x = _len_of(c[3])
        if x is not None:
            return ('present', ('next', x))
    if c[0] == 'cmp' and c[1] == 'le' and _is_counter(c[3]):
        x = _len_of(c[2])
        if x is not None:
            return ('absent', ('next', x))
    return c


def adt_variants(crate, ty):
    a = crate.adts.get(ty)
    if a is None:
        # generic-less lookup
        return None
    return {int(v['discr']) if v['discr'].lstrip('-').isdigit() else v['idx']: v['name'] for v in a['variants']}


def cond_discr(crate, x, ty, label, all_labels):
    """condition for discriminant(x) == label (label may be 'otherwise')"""
    ty = ty.lstrip('&').strip()
    if ty.startswith('mut '):
        ty = ty[4:]
    two = ty.startswith(('core::option::Option<', 'std::option::Option<', 'core::result::Result<', 'std::result::Result<', 'core::ops::ControlFlow<'))
    if two and label == 'otherwise':
        rest = [v for v in (0, 1) if v not in all_labels]
        if len(rest) == 1:
            label = rest[0]
    if ty.startswith('core::option::Option<') or ty.startswith('std::option::Option<'):
        names = {0: 'absent', 1: 'present'}
        if x[0] == 'next' and isinstance(x[1], tuple) and x[1][0] == 'indices':
            x = ('next', x[1][1])       # there is a next index of X iff there is a next element of X
        if label in names:
            if x[0] == 'sget':
                return (names[label], ('skey', x[1], x[2]))
            return (names[label], x)
    if ty.startswith('core::result::Result<') or ty.startswith('std::result::Result<'):
        names = {0: 'ok', 1: 'err'}
        if label in names:
            return (names[label], x)
    if ty.startswith('core::ops::ControlFlow<'):
        names = {0: 'Continue', 1: 'Break'}
        if label in names:
            return ('is', names[label], x)
    vs = adt_variants(crate, ty)
    if vs is not None:
        if label in vs:
            return ('is', vs[label], x)
        if label == 'otherwise':
            rest = [n for d, n in vs.items() if d not in all_labels]
            if len(rest) == 1:
                return ('is', rest[0], x)
            return ('isnot_any', tuple(sorted(vs[l] for l in all_labels if l in vs)), x)
    return ('discr_eq', label, x)


class Guard:
    __slots__ = ('ctx', 'bb', 'label', 'cond', 'at', 'D', 'origin')

    def __init__(self, ctx, bb, label, cond, at, D):
        self.origin = None
        self.ctx = ctx
        self.bb = bb
        self.label = label
        self.cond = cond
        self.at = at
        self.D = D

    @property
    def edge(self):
        return (self.ctx.id, self.bb, self.label)

    @property
    def truth(self):
        """plain branch value of the edge (0/1/'otherwise'/'ok'), whatever the label's bookkeeping"""
        return self.label[1] if isinstance(self.label, tuple) else self.label


def guard_edges(g):
    """list of Guard for every reachable switch/assert edge of the entry graph (cached)"""
    if hasattr(g, '_guards'):
        return g._guards
    out = []
    for (cid, bb), sids in g.node_states.items():
        ctx = g.ctxs[cid]
        blk = ctx.body['blocks'][bb]
        t = blk['term']
        labels = set()
        for s in sids:
            for _, lab in g.succ[s]:
                labels.add(lab)
        idx = len(blk['st'])
        if t['t'] == 'switch':
            D = norm(g.term_operand(ctx, bb, idx, t['d']))
            dty = t.get('dty', '')
            arm_labels = [a for a, _ in t['arms']]
            for lab in labels:
                if isinstance(lab, tuple) and lab[0] == 'bs':
                    # the tested value is (the negation of) a comparison computed elsewhere, identified path-sensitively by the
                    # abstract store: the edge condition is that comparison's, not the `&&`/`||`/parameter plumbing's
                    _, iv, site_, neg = lab
                    D2 = norm(g.site_term(site_))
                    c = cond_true(D2)
                    if neg:
                        c = negate(c)
                    if not iv:
                        c = negate(c)
                    c = discr_guard(g.crate, counter_guard(c))
                    gd_ = Guard(ctx, bb, lab, c, t.get('at'), D2)
                    gd_.origin = site_
                    out.append(gd_)
                    continue
                if dty == 'bool':
                    truth = (lab != 0) if lab != 'otherwise' else True
                    c = cond_true(D)
                    if not truth:
                        c = negate(c)
                    out.append(Guard(ctx, bb, lab, discr_guard(g.crate, counter_guard(c)), t.get('at'), D))
                elif D[0] == 'discr':
                    c = cond_discr(g.crate, D[1], D[2] if len(D) > 2 else '', lab, arm_labels)
                    out.append(Guard(ctx, bb, lab, c, t.get('at'), D))
                else:
                    # integer switch (match on a number)
                    if lab == 'otherwise':
                        c = ('int_not_in', tuple(arm_labels), D)
                    else:
                        c = ('cmp', 'eq', D, ('const', str(lab)))
                    out.append(Guard(ctx, bb, lab, c, t.get('at'), D))
        elif t['t'] == 'assert':
            D = norm(g.term_operand(ctx, bb, idx, t['c']))
            c = cond_true(D)
            if not t['exp']:
                c = negate(c)
            out.append(Guard(ctx, bb, 'ok', c, t.get('at'), D))
    for gd_ in out:
        gd_.cond = checked_sub_guard(gd_.cond)
    g._guards = out
    return out


def find_guards(g, pred):
    return [x for x in guard_edges(g) if pred(x.cond)]
