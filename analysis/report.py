"""Obligation bookkeeping, known-findings filter, evidence and replay files."""
import hashlib
import json
import os
import time

VERIF = os.path.dirname(os.path.dirname(os.path.abspath(__file__)))
EVDIR = os.environ.get('VERIF_EVIDENCE_DIR') or os.path.join(VERIF, 'evidence')

TRUSTED = {
    'T1': 'host atomicity: an invocation that returns Err or traps has no effect, including effects of nested calls',
    'T2': 'require_auth succeeds only with the address\'s authorisation (or when it is the direct caller contract)',
    'T3': 'storage get/has/set/remove are exact per key XDR and per storage class',
    'T4': 'deploy_v2 at an occupied address traps',
    'T5': 'keccak256, ed25519_verify (traps on an invalid signature) and to_xdr (injective on contracttype values) are correct',
    'T6': 'rustc MIR is faithful; host-target expansion of the SDK macros equals the wasm one for contract bodies; '
          'derived PartialEq/PartialOrd/Clone are structural',
    'T7': 'alloy-sol-types implements the Solidity ABI (C10 only)',
    'T8': 'token contracts called through token clients behave as tokens',
    'T9': 'the deployed interchain_token.wasm is built from contracts/interchain-token',
}


class Report:
    def __init__(self, pid, tier):
        self.pid = pid
        self.tier = tier
        self.t0 = time.time()
        self.obligations = []     # dict(rule, what, ok, key, site, detail)
        self.notes = []
        self.counts = {}
        self.floors = []          # (name, measured, floor)
        self.not_decided = ''
        self.explanation = ''
        self.assumptions = []
        self.selftest = []

    # ---- recording ----
    def ok(self, rule, what, site=None, detail=None):
        self.obligations.append(dict(rule=rule, what=what, ok=True, site=site, detail=detail))

    def bad(self, rule, key, what, site=None, detail=None, witness=None):
        """key: stable identifier of the violated instance (no line numbers)"""
        self.obligations.append(dict(rule=rule, what=what, ok=False, key='%s:%s' % (rule, key), site=site,
                                     detail=detail, witness=witness))

    def check(self, cond, rule, key, what, site=None, detail=None, witness=None):
        if cond:
            self.ok(rule, what, site, detail)
        else:
            self.bad(rule, key, what, site, detail, witness)
        return cond

    def note(self, s):
        self.notes.append(s)

    def floor(self, name, measured, floor):
        self.floors.append((name, measured, floor))
        if measured < floor:
            self.bad('FLOOR', name, 'anchor/count floor not met: %s measured %d < %d (fail closed: the construct the rule '
                     'is anchored on was not found)' % (name, measured, floor))

    def count(self, name, n):
        self.counts[name] = self.counts.get(name, 0) + n

    # ---- output ----
    def finish(self, info, known):
        viol = []
        known_hits = []
        kf = {k['key']: k for k in known if k.get('property') == self.pid and k.get('status') == 'known'}
        for o in self.obligations:
            if o['ok']:
                continue
            if o['key'] in kf:
                known_hits.append((o, kf[o['key']]))
            else:
                viol.append(o)
        lines = []
        seen_kf = set()
        for o, k in known_hits:
            if k['key'] in seen_kf:
                continue
            seen_kf.add(k['key'])
            lines.append('KNOWN-FINDING: property=%s %s [%s]' % (self.pid, k['what'], k['key']))
        rdir = os.path.join(EVDIR, 'replay')
        os.makedirs(rdir, exist_ok=True)
        for o in viol:
            h = hashlib.sha1(o['key'].encode()).hexdigest()[:10]
            rp = os.path.join(rdir, '%s-%s.json' % (self.pid, h))
            with open(rp, 'w') as f:
                json.dump(dict(property=self.pid, key=o['key'], rule=o['rule'], what=o['what'], site=o.get('site'),
                               detail=o.get('detail'), witness=o.get('witness'), tree_hash=info.get('tree_hash')),
                          f, indent=1, default=str)
            lines.append('VIOLATION property=%s replay=%s' % (self.pid, rp))
            lines.append('  rule=%s site=%s :: %s' % (o['rule'], o.get('site'), o['what']))
        n_ob = len(self.obligations)
        n_ok = sum(1 for o in self.obligations if o['ok'])
        rules = sorted(set(o['rule'] for o in self.obligations))
        distinct = len(set((o['rule'], o.get('site'), o['what']) for o in self.obligations if o['ok']))
        samples = []
        per_rule = {}
        for o in self.obligations:
            per_rule.setdefault(o['rule'], []).append(o)
        for r in rules:
            for o in per_rule[r][:2]:
                samples.append(dict(rule=o['rule'], ok=o['ok'], what=o['what'], site=o.get('site'),
                                    detail=(o.get('detail') or '')[:400]))
        ev = dict(
            property_id=self.pid, tier=self.tier, seed=int(os.environ.get('VERIF_SEED', '0') or 0), level='other',
            coverage=dict(
                explanation=self.explanation + (' NOT DECIDED: ' + self.not_decided if self.not_decided else ''),
                rule='one evaluation = one rule instance (rule id x entry point x site) decided on the MIR-derived '
                     'state graph / def-use terms of /repo\'s current tree; distinct = distinct (rule, site, statement) '
                     'triples that matched a real code site and were discharged',
                evaluations=n_ob, distinct_nontrivial=distinct, obligations=n_ob, discharged=n_ok,
                checker_cmd='./check %s --tier %s' % (self.pid, self.tier),
                samples=samples, rules=rules, counts=self.counts,
                floors=[dict(name=a, measured=b, floor=c) for a, b, c in self.floors],
                notes=self.notes[:60], known_findings=[k['key'] for _, k in known_hits],
                tree_hash=info.get('tree_hash'), facts_cached=info.get('cached'), extraction_wall_s=info.get('wall_s'),
                program=info.get('program', {}), selftest=self.selftest,
                trusted_base=[TRUSTED[a] for a in self.assumptions if a in TRUSTED],
            ),
            assumptions=[('%s: %s' % (a, TRUSTED[a])) if a in TRUSTED else a for a in self.assumptions],
            wall_s=round(time.time() - self.t0 + (info.get('wall_s') or 0), 2),
            violations=len(viol),
        )
        os.makedirs(EVDIR, exist_ok=True)
        with open(os.path.join(EVDIR, '%s.json' % self.pid), 'w') as f:
            json.dump(ev, f, indent=1, default=str)
        return lines, len(viol), ev


def load_known():
    p = os.path.join(VERIF, 'known_findings.json')
    if not os.path.exists(p):
        return []
    return json.load(open(p)).get('findings', [])
