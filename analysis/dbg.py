import sys,glob
from prog import *
from fmt import fmt
import os; d=sorted(glob.glob('/verif/.cache/facts/*/'), key=os.path.getmtime)[-1]
P=Program(d)
cn,e=sys.argv[1],sys.argv[2]
pat=sys.argv[3] if len(sys.argv)>3 else ''
g=P.graph(cn,e)
print('ctxs',len(g.ctxs),'states',len(g.states))
INTEREST=('require_auth','storage::','publish','ed25519','invoke_contract','keccak','Client','deploy','event::Events','to_xdr','update_current')
for ctx,bb,t in sorted(g.call_nodes(), key=lambda x:(x[0].id,x[1])):
    if pat and pat not in t['callee']: continue
    if not pat and not any(x in t['callee'] for x in INTEREST): continue
    print('ctx%d bb%d %s  @%s  [%s]'%(ctx.id,bb,t['callee'][:90],t['at'].split('/')[-1], ctx.body['def'].split('::')[-1]))
    for a in g.arg_terms(ctx,bb): print('      ',fmt(a)[:400])
