"""Human-readable rendering of terms (for evidence, replay files and debugging)."""
import re


def _short_path(p):
    p = re.sub(r'^(\w+)::\1::', r'\1::', p)
    p = p.replace('soroban_sdk::soroban_sdk::', 'sdk::').replace('soroban_sdk::', 'sdk::')
    p = p.replace('core::core::', 'core::')
    return p


def fmt(t, depth=0):
    if not isinstance(t, tuple):
        return repr(t)
    if depth > 14:
        return '…'
    h = t[0]
    F = lambda x: fmt(x, depth + 1)
    if h == 'param':
        return '$' + t[1]
    if h == 'const':
        v = t[1]
        if v.startswith('const '):
            v = v[6:]
        if len(t) > 2:
            return '%s[%s]' % (v, t[2].split('::')[-1])
        return v
    if h == 'call':
        name = _short_path(t[1])
        if len(name) > 80:
            name = name[:80] + '…'
        return '%s(%s)' % (name, ', '.join(F(a) for a in t[2]))
    if h == 'bin':
        return '%s(%s, %s)' % (t[1], F(t[2]), F(t[3]))
    if h == 'un':
        return '%s(%s)' % (t[1], F(t[2]))
    if h == 'cast':
        return '(%s as %s)' % (F(t[3]), t[1])
    if h == 'struct':
        return '%s{%s}' % (t[1].split('::')[-1], ', '.join('%s: %s' % (n, F(x)) for n, x in t[2]))
    if h == 'variant':
        nm = t[1].split('::')[-1] + '::' + t[2]
        if not t[3]:
            return nm
        return '%s(%s)' % (nm, ', '.join(F(x) for x in t[3]))
    if h == 'tuple':
        return '(%s)' % ', '.join(F(x) for x in t[1])
    if h == 'array':
        return '[%s]' % ', '.join(F(x) for x in t[1])
    if h == 'repeat':
        return '[%s; %s]' % (F(t[1]), t[2])
    if h == 'closure':
        return 'closure<%s>(%s)' % (t[1].split('::')[-2] if '::' in t[1] else t[1], ', '.join(F(x) for x in t[2]))
    if h == 'phi':
        return 'PHI{%s}' % ' | '.join(F(x) for x in t[1])
    if h == 'payload':
        return '%s?%s(%s)' % (t[1], '' if t[2] == 0 else '.%d' % t[2], F(t[3]))
    if h == 'field':
        return '%s.%s' % (F(t[2]), t[1])
    if h == 'as':
        return '(%s as %s)' % (F(t[2]), t[1])
    if h == 'discr':
        return 'discr(%s)' % F(t[1])
    if h == 'mut':
        name = _short_path(t[1])
        return 'MUT[%s](%s <- %s)' % (name.split('::')[-1][:40], F(t[2]), ', '.join(F(a) for a in t[3]))
    if h == 'upd':
        return 'UPD(%s.%s := %s)' % (F(t[1]), t[2], F(t[3]))
    if h == 'mu':
        return 'μ_%s' % (t[2],)
    if h == 'self':
        return 'SELF'
    if h == 'now':
        return 'NOW'
    if h == 'seq':
        return 'SEQ'
    if h == 'sym':
        return 'sym"%s"' % t[1]
    if h == 'lit':
        return 'lit(%s)' % F(t[1])
    if h in ('keccak', 'xdr', 'elem', 'next', 'vecmap', 'sha256'):
        return '%s(%s)' % (h, F(t[1]))
    if h == 'concat':
        return 'concat(%s)' % ', '.join(F(x) for x in t[1])
    if h == 'sget':
        return 'SG[%s](%s)' % (t[1], F(t[2]))
    if h == 'shas':
        return 'SHAS[%s](%s)' % (t[1], F(t[2]))
    if h == 'leafarg':
        return 'LEAFARG%d<%s>' % (t[2], F(t[1]))
    if h == 'fn':
        return 'fn ' + t[1]
    if h == 'index':
        return '%s[%s]' % (F(t[1]), t[2])
    return str(t)
