import sys,glob
from prog import *
from model import *
import os; d=sorted(glob.glob('/verif/.cache/facts/*/'), key=os.path.getmtime)[-1]
P=Program(d)
sel=sys.argv[1] if len(sys.argv)>1 else ''
for cn,e in P.all_entries():
    if sel and sel not in cn+'::'+e: continue
    g=P.graph(cn,e)
    print('==',cn,e,'states',len(g.states))
    for ef in effects(g):
        print('   ctx%d bb%d %-6s %s  @%s'%(ef.ctx.id,ef.bb,ef.kind,ef.describe()[:300],ef.short_at()))
