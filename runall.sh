#!/bin/sh
# run every property's quick check on /repo's current tree; prints one line per property, exit 1 if any check is not clean
cd "$(dirname "$0")"
rc=0
for p in C01 C02 C03 C04 C05 C06 C07 C08 C09 C10 C11 C12 C13 C14 C15 C16 C17 C18; do
  out=$(./check $p --tier quick 2>&1); c=$?
  echo "$out" | tail -1
  if [ $c -ne 0 ]; then rc=1; echo "$out" | grep -E "VIOLATION|rule=|INFRA|Traceback" | head -5; fi
done
exit $rc
