#!/usr/bin/env python3
"""Regenerates MANIFEST.json from the rule modules present in analysis/rules (claimed) and NA.json (not claimed)."""
import importlib, json, os, sys
HERE = os.path.dirname(os.path.abspath(__file__))
sys.path.insert(0, os.path.join(HERE, 'analysis'))
props = [json.loads(l) for l in open(os.path.join(HERE, 'properties.jsonl'))]
na = json.load(open(os.path.join(HERE, 'NA.json'))) if os.path.exists(os.path.join(HERE, 'NA.json')) else {}
checks, not_app, claimed = [], [], []
for p in props:
    pid = p['id']
    path = os.path.join(HERE, 'analysis', 'rules', pid.lower() + '.py')
    if os.path.exists(path) and pid not in na:
        mod = importlib.import_module('rules.' + pid.lower())
        claimed.append(pid)
        checks.append({
            'property_id': pid,
            'quick_cmd': './check %s' % pid,
            'thorough_cmd': './check %s --tier thorough' % pid,
            'evidence_file': 'evidence/%s.json' % pid,
            'replay_cmd_template': './check %s --explain {path}' % pid,
            'engine': 'axl-facts + rule engine',
            'level_claimed': {
                'category': 'other',
                'text': 'Static analysis over the monomorphised MIR of the real entry points (all paths, all inputs, all '
                        'histories) for these structural, necessary clauses: ' + mod.EXPLAIN +
                        (' NOT decided (stated, trusted or out of reach): ' + mod.NOT_DECIDED if getattr(mod, 'NOT_DECIDED', '') else ''),
                'design_ref': 'DESIGN.md section 3 (%s)' % pid,
            },
            'level_note': 'trusted base ' + ', '.join(getattr(mod, 'ASSUME', [])) + ' (DESIGN.md 2.8); analysed on the host target, contract bodies identical to wasm',
            'technique': getattr(mod, 'TECH', 'static analysis: must-guard / must-follow reachability over a tag- and boolean-sensitive interprocedural MIR state graph, def-use provenance terms, who-may-write inventories, relation pins'),
        })
    else:
        not_app.append({'property_id': pid, 'reason': na.get(pid, 'rules not implemented yet in this revision (work in progress; DESIGN.md section 3)')})
m = {
    'version': 1,
    'setup_cmd': './setup.sh',
    'hooks': {'guard': 'axelar_cgp_soroban_verif',
              'enable': 'none needed: the checks are static (rustc MIR of the unmodified sources); there are no hook commits',
              'baseline_off_cmd': 'cd /repo && cargo test --workspace --no-fail-fast --offline',
              'source_commits': [], 'add_only': True},
    'engines': [{'name': 'axl-facts + rule engine', 'path': 'driver/ analysis/', 'serves_properties': claimed,
                 'kind_free_text': 'rustc_private MIR fact extractor (monomorphic instance walk from every contract entry point, '
                                   'per-package builds in the deployed feature configuration) + Python static analysis: tag/boolean-sensitive '
                                   'interprocedural reachability (must-guard, must-follow, effect-freedom), flow-sensitive def-use provenance '
                                   'terms, who-may-write inventories, relation pins, sibling agreement, type tables'}],
    'checks': checks,
    'notes': 'Technique family: static analysis only. No contract, test, symbolic executor or solver is run by any check. '
             'Exit 2 (no VIOLATION line) = infrastructure failure (tree does not compile on nightly / unclassified SDK leaf).',
    'not_applicable': not_app,
}
json.dump(m, open(os.path.join(HERE, 'MANIFEST.json'), 'w'), indent=1)
print('claimed', claimed)
